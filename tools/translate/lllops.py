"""Translator T (C16): INTEGER SLICE of src/quaternion/ref/generic/lll.c -> lean/SqiGen/LllOps.lean (data).

Kept (and emitted as data for the interpreter in lean/SqiModel/LllProg.lean):
  * RED, SWAP: every statement that touches `basis[..][..]`, `H[..][..]`, the local `tmpz` or the quotient `q`:
    `mpz_mul(d, q, s)`, `mpz_add(d, a, b)`, `mpz_sub(d, a, b)`, `mpz_submul(d, q, s)`, `mpz_swap(a, b)`, possibly under
    `if (i == <literal>)`, inside `for (int i = 0; i < N; ++i)` loops, which are UNROLLED into per-entry statements
    (so "forgets one entry" / "uses q+1 in one coordinate" are visible in the data).  Row index expressions: `k`, `l`, `k - 1`.
  * RED: the float-guarded early exit `if (mpf_cmp(..) <= 0) goto end;` and `mpz_set_f(q, ..)` become ORACLE choices; the
    translator checks that they precede every integer statement.
  * quat_lattice_lll: the events (exact rank test returning -1, precision, transpose in, H := identity, main loop,
    transpose out) in textual order, and the shape of the main loop (zero test kind, RED(k,k-1), oracle Lovasz branch,
    SWAP(k), k = max(k-1,1), RED(k,l) for l = k-2..0, k++).
Dropped: every statement / block that mentions none of `basis`, `H`, `mpz_`, `ibz_`, `ret`, `return`, `goto`
(i.e. the mpf arithmetic, declarations, init/clear of locals).
Anything else is refused loudly (TranslateError)."""
import os, re, sys

sys.path.insert(0, os.path.dirname(os.path.dirname(os.path.abspath(__file__))))
from vlib import write_if_changed


class TranslateError(Exception):
    pass


def strip_c_comments(s):
    s = re.sub(r"/\*.*?\*/", "", s, flags=re.S)
    return re.sub(r"//[^\n]*", "", s)


def func_body(src, name):
    m = re.search(r"\b(?:static\s+)?(?:void|int)\s+%s\s*\(([^)]*)\)\s*\{" % re.escape(name), src)
    if not m:
        raise TranslateError("lll.c: function %s not found" % name)
    i, depth = m.end(), 1
    while depth:
        if i >= len(src):
            raise TranslateError("lll.c: unbalanced braces in %s" % name)
        depth += {"{": 1, "}": -1}.get(src[i], 0)
        i += 1
    return m.group(1), src[m.end():i - 1]


def match_paren(s, i):
    """s[i] == '(' -> index after the matching ')'"""
    depth = 0
    while True:
        if s[i] == "(":
            depth += 1
        elif s[i] == ")":
            depth -= 1
            if depth == 0:
                return i + 1
        i += 1


def match_brace(s, i):
    depth = 0
    while True:
        if s[i] == "{":
            depth += 1
        elif s[i] == "}":
            depth -= 1
            if depth == 0:
                return i + 1
        i += 1


def split_stmts(s):
    """split a block body into top-level statements: ('for'|'while'|'if', header, body[, else-body]) / ('simple', text) /
    ('label', name) / ('block', body)"""
    out, i, n = [], 0, len(s)
    while i < n:
        if s[i].isspace():
            i += 1
            continue
        m = re.match(r"(for|while|if)\s*\(", s[i:])
        if m:
            kw = m.group(1)
            j = match_paren(s, i + m.end() - 1)
            header = s[i + m.end():j - 1].strip()
            k = j
            while s[k].isspace():
                k += 1
            if s[k] == "{":
                e = match_brace(s, k)
                body = s[k + 1:e - 1]
            else:
                e = s.index(";", k) + 1
                body = s[k:e]
            els = None
            if kw == "if":
                m2 = re.match(r"\s*else\b", s[e:])
                if m2:
                    k2 = e + m2.end()
                    while s[k2].isspace():
                        k2 += 1
                    if s[k2] == "{":
                        e2 = match_brace(s, k2)
                        els = s[k2 + 1:e2 - 1]
                    else:
                        e2 = s.index(";", k2) + 1
                        els = s[k2:e2]
                    e = e2
            out.append((kw, header, body, els))
            i = e
            continue
        if s[i] == "{":
            e = match_brace(s, i)
            out.append(("block", s[i + 1:e - 1]))
            i = e
            continue
        m = re.match(r"([A-Za-z_]\w*)\s*:(?!:)", s[i:])
        if m and not s[i:].startswith("default"):
            out.append(("label", m.group(1)))
            i += m.end()
            continue
        e = s.index(";", i) + 1
        out.append(("simple", " ".join(s[i:e].split())))
        i = e
    return out


INTEGER_MARK = re.compile(r"\b(basis|H|mpz_\w+|ibz_\w+|ret|return|goto|tmpz|RED|SWAP)\b")
HARMLESS_SIMPLE = re.compile(r"^(mpz_t|mpf_t|int|ibz_t|ibz_mat_4x4_t)\b[^=;]*;$|^mpz_(init|clear)\((q|tmpz|tmp_z)\);$|^mpf_\w+\(.*\);$")


def droppable(text):
    return not INTEGER_MARK.search(text)


def ref(expr, i):
    """C operand -> Lean Ref (i = value of the unrolled loop variable)"""
    e = expr.replace(" ", "")
    if e == "tmpz":
        return "Ref.tmp"
    m = re.match(r"^(basis|H)\[(k|l|k-1)\]\[(i|\d)\]$", e)
    if not m:
        raise TranslateError("lll.c: operand outside the accepted subset: %r" % expr)
    col = i if m.group(3) == "i" else int(m.group(3))
    if col is None or not 0 <= col < 4:
        raise TranslateError("lll.c: column index out of range in %r" % expr)
    row = {"k": "Idx.k", "l": "Idx.l", "k-1": "Idx.kMinus1"}[m.group(2)]
    return "Ref.ent Which.%s %s %d" % (m.group(1), row, col)


def int_stmt(text, i):
    """one mpz statement -> Lean Stmt"""
    m = re.match(r"^(mpz_\w+)\((.*)\);$", text)
    if not m:
        raise TranslateError("lll.c: integer statement outside the accepted subset: %r" % text)
    f, args = m.group(1), [a.strip() for a in m.group(2).split(",")]
    if f == "mpz_mul" and len(args) == 3 and args[1] == "q":
        return "Stmt.mulQ (%s) (%s)" % (ref(args[0], i), ref(args[2], i))
    if f == "mpz_submul" and len(args) == 3 and args[1] == "q":
        return "Stmt.subMulQ (%s) (%s)" % (ref(args[0], i), ref(args[2], i))
    if f in ("mpz_add", "mpz_sub") and len(args) == 3:
        return "Stmt.%s (%s) (%s) (%s)" % (f[4:], ref(args[0], i), ref(args[1], i), ref(args[2], i))
    if f == "mpz_swap" and len(args) == 2:
        return "Stmt.swap (%s) (%s)" % (ref(args[0], i), ref(args[1], i))
    raise TranslateError("lll.c: integer statement outside the accepted subset: %r" % text)


def unroll(header, body, fname):
    m = re.match(r"^int\s+i\s*=\s*0\s*;\s*i\s*<\s*(\d+)\s*;\s*(?:\+\+i|i\+\+)$", header)
    if not m:
        raise TranslateError("lll.c (%s): loop with integer statements has an unsupported header: for (%s)" % (fname, header))
    n = int(m.group(1))
    if n > 4:
        raise TranslateError("lll.c (%s): loop bound %d > 4" % (fname, n))
    out = []
    for i in range(n):
        for st in split_stmts(body):
            if st[0] == "simple":
                out.append(int_stmt(st[1], i))
            elif st[0] == "if" and st[3] is None:
                g = re.match(r"^i\s*==\s*(\d+)$", st[1])
                if not g:
                    raise TranslateError("lll.c (%s): guard outside the accepted subset: if (%s)" % (fname, st[1]))
                if int(g.group(1)) == i:
                    for s2 in split_stmts(st[2]):
                        if s2[0] != "simple":
                            raise TranslateError("lll.c (%s): nested control flow under a guard" % fname)
                        out.append(int_stmt(s2[1], i))
            else:
                raise TranslateError("lll.c (%s): control flow inside an integer loop: %r" % (fname, st[:2]))
    return out


def slice_red(src):
    _, body = func_body(src, "RED")
    stmts, early, setq, seen_int = [], False, False, False
    for st in split_stmts(body):
        if st[0] == "label":
            continue
        if st[0] == "simple":
            t = st[1]
            if HARMLESS_SIMPLE.match(t) and not re.match(r"^mpz_set_f", t):
                continue
            if re.match(r"^mpz_set_f\(q,\s*\w+\);$", t):
                if seen_int:
                    raise TranslateError("lll.c (RED): q is set after an integer statement")
                setq = True
                continue
            raise TranslateError("lll.c (RED): statement outside the accepted subset: %r" % t)
        if st[0] == "if":
            if re.match(r"^mpf_cmp\(\w+,\s*\w+\)\s*<=\s*0$", st[1]) and " ".join(st[2].split()) == "goto end;" and st[3] is None:
                if seen_int:
                    raise TranslateError("lll.c (RED): early exit after an integer statement")
                early = True
                continue
            if droppable(st[2] + (st[3] or "") + st[1]):
                continue
            raise TranslateError("lll.c (RED): conditional outside the accepted subset: if (%s)" % st[1])
        if st[0] == "for":
            if droppable(st[2]):
                continue
            if not setq:
                raise TranslateError("lll.c (RED): integer loop before q is set")
            stmts += unroll(st[1], st[2], "RED")
            seen_int = True
            continue
        raise TranslateError("lll.c (RED): construct outside the accepted subset: %r" % (st[:2],))
    return early, setq, stmts


def slice_swap(src):
    _, body = func_body(src, "SWAP")
    stmts = []
    for st in split_stmts(body):
        if st[0] == "simple":
            if HARMLESS_SIMPLE.match(st[1]):
                continue
            raise TranslateError("lll.c (SWAP): statement outside the accepted subset: %r" % st[1])
        if st[0] in ("for", "if"):
            if droppable(st[2] + (st[3] or "") if st[0] == "if" else st[2]):
                continue
            if st[0] == "for":
                stmts += unroll(st[1], st[2], "SWAP")
                continue
        raise TranslateError("lll.c (SWAP): construct outside the accepted subset: %r" % (st[:2],))
    return stmts


def slice_main(src):
    _, body = func_body(src, "quat_lattice_lll")
    events, loop = [], None
    top = split_stmts(body)

    def is_h_init(st):
        t = " ".join((st[2] or "").split())
        return st[0] == "for" and "mpz_init_set_ui(H[i][j], 1)" in t and re.search(r"if \(i == j\) mpz_init_set_ui\(H\[i\]\[j\], 1\); else mpz_init\(H\[i\]\[j\]\);", t)

    for st in top:
        text = " ".join(" ".join(str(x) for x in st[1:] if x).split())
        if st[0] == "label":
            continue
        if st[0] == "block" and "ibz_mat_4x4_inv_with_det_as_denom" in st[1]:
            t = " ".join(st[1].split())
            if not re.search(r"ibz_mat_4x4_inv_with_det_as_denom\(NULL, &det, &lattice->basis\);", t) or \
               re.search(r"\b(basis\[|H\[|RED|SWAP|goto)", t):
                raise TranslateError("lll.c: the entry rank test block does not have the expected form")
            if re.search(r"int full_rank = ibz_mat_4x4_inv_with_det_as_denom\(NULL, &det, &lattice->basis\);", t) and \
               re.search(r"if \(!full_rank\) return -1;", t):
                events.append("Event.rankTestReturnMinus1")
            elif "return" in t:
                raise TranslateError("lll.c: the entry rank test returns in an unexpected way")
            else:
                events.append("Event.rankComputedNoReturn")
            continue
        if st[0] == "simple":
            t = st[1]
            if re.match(r"^mpf_set_default_prec\(", t):
                events.append("Event.setPrecision")
                continue
            if t == "ibz_mat_4x4_transpose(&basis, &lattice->basis);":
                events.append("Event.transposeIn")
                continue
            if t == "ibz_mat_4x4_transpose(red, &basis);":
                events.append("Event.transposeOut")
                continue
            if re.match(r"^(int ret = 0;|int k = 1, kmax = 0;|int logdet = 0;|return ret;|ibz_mat_4x4_init\(&basis\);|ibz_mat_4x4_finalize\(&basis\);"
                        r"|mpz_(init|clear)\(tmp_z\);|dotproduct_row\(&tmp_z, basis, basis, q, 0, 0\);|mpf_set_z\(B\[0\], tmp_z\);)$", t):
                continue
            if HARMLESS_SIMPLE.match(t):
                continue
            raise TranslateError("lll.c (quat_lattice_lll): statement outside the accepted subset: %r" % t)
        if st[0] == "for":
            if is_h_init(st):
                events.append("Event.initHIdentity")
                continue
            t = " ".join(st[2].split())
            # read-only uses of basis / the input (bitsizes, mpf_set_z(bStar, basis)), mpf init/clear and mpz_clear(H) are
            # floats / cleanup; any integer UPDATE of basis/H or any call/return/jump here is refused
            if re.search(r"mpz_(mul|add|sub|submul|swap|neg|set|set_ui|set_si|init_set\w*)\(\s*(basis|H)\[", t) or \
               re.search(r"\b(RED|SWAP|return|goto|ret)\b", t):
                raise TranslateError("lll.c (quat_lattice_lll): integer update of basis/H or control transfer outside RED/SWAP: for (%s)" % st[1])
            continue
            raise TranslateError("lll.c (quat_lattice_lll): loop outside the accepted subset: for (%s)" % st[1])
        if st[0] == "while" and st[1].replace(" ", "") == "k<4":
            events.append("Event.mainLoop")
            loop = slice_loop(st[2])
            continue
        raise TranslateError("lll.c (quat_lattice_lll): construct outside the accepted subset: %r" % text[:120])
    if loop is None:
        raise TranslateError("lll.c (quat_lattice_lll): main loop `while (k < 4)` not found")
    return events, loop


def slice_loop(body):
    sts = [s for s in split_stmts(body)]
    if len(sts) != 2 or sts[0][0] != "if" or sts[0][1].replace(" ", "") != "k>kmax" or sts[1][0] != "while" or sts[1][1].strip() != "1":
        raise TranslateError("lll.c: main loop body does not have the shape `if (k > kmax) {..} while (1) {..}`")
    gs = " ".join(sts[0][2].split())
    if re.search(r"mpz_(mul|add|sub|submul|swap)\(", gs) or re.search(r"\b(RED|SWAP)\b", gs):
        raise TranslateError("lll.c: integer updates inside the incremental Gram-Schmidt block")
    m = re.search(r"if \((.*?)\) \{ ret = (-?\d+); goto err; \}", gs)
    if not m:
        raise TranslateError("lll.c: zero test `if (..) { ret = -1; goto err; }` not found in the Gram-Schmidt block")
    cond = m.group(1).replace(" ", "")
    zt = {"mpf_sgn(B[k])==0": "ZeroTest.mpfSgn", "mpf_get_d(B[k])==0.0": "ZeroTest.doubleConv"}.get(cond, "ZeroTest.other")
    zret = m.group(2) == "-1"
    inner = split_stmts(sts[1][2])
    inner = [s for s in inner if not (s[0] == "simple" and re.match(r"^mpf_\w+\(.*\);$", s[1]))]
    if len(inner) != 2 or inner[0][0] != "simple" or inner[1][0] != "if" or inner[1][3] is None:
        raise TranslateError("lll.c: inner loop does not have the shape `RED(..); <floats>; if (..) {SWAP..} else {..}`")
    m = re.match(r"^RED\(basis, u, H, k, (k - 1)\);$", inner[0][1])
    if not m:
        raise TranslateError("lll.c: first call of the inner loop is not RED(basis, u, H, k, k - 1): %r" % inner[0][1])
    if not re.match(r"^mpf_cmp\(B\[k\], tmp\) < 0$", inner[1][1].strip()):
        raise TranslateError("lll.c: Lovasz branch is not the float comparison mpf_cmp(B[k], tmp) < 0")
    th = [" ".join(s[1].split()) if s[0] == "simple" else s for s in split_stmts(inner[1][2])]
    if th != ["SWAP(basis, u, H, B, bStar, k, kmax);", "k = (k - 1 > 1 ? k - 1 : 1);"]:
        raise TranslateError("lll.c: swap branch is not `SWAP(basis,u,H,B,bStar,k,kmax); k = max(k-1,1);`: %r" % (th,))
    el = split_stmts(inner[1][3])
    if len(el) != 3 or el[0][0] != "for" or el[1] != ("simple", "k++;") or el[2] != ("simple", "break;"):
        raise TranslateError("lll.c: else branch is not `for (l = k-2..0) RED(k,l); k++; break;`")
    if " ".join(el[0][1].split()) != "int l = k - 2; l >= 0; --l" or " ".join(el[0][2].split()) != "RED(basis, u, H, k, l);":
        raise TranslateError("lll.c: else-branch loop is not `for (int l = k - 2; l >= 0; --l) RED(basis, u, H, k, l);`")
    return dict(kInit=1, kBound=4, zeroTest=zt, zret=zret)


def lean_list(items, indent="  "):
    if not items:
        return "[]"
    return "[\n" + ",\n".join(indent + "  " + x for x in items) + "]"


def generate(repo, outdir):
    path = os.path.join(repo, "src", "quaternion", "ref", "generic", "lll.c")
    src = strip_c_comments(open(path).read())
    early, setq, red = slice_red(src)
    swap = slice_swap(src)
    events, loop = slice_main(src)
    if re.search(r"\bint\s+k\s*=\s*1\s*,", src) is None:
        raise TranslateError("lll.c: `int k = 1` not found")
    b = lambda x: "true" if x else "false"
    out = ["/- GENERATED by tools/translate/lllops.py from src/quaternion/ref/generic/lll.c — the integer slice of RED, SWAP and the",
           "   skeleton of quat_lattice_lll as DATA for the interpreter in SqiModel/LllProg.lean.  Do not edit. -/",
           "import SqiModel.LllProg", "namespace SqiGen.LllOps", "open SqiModel.LllProg", "",
           "/-- RED: `if (|u[k][l]| <= 0.5) goto end` (oracle), `q := floor(0.5 + u[k][l])` (oracle), then the unrolled integer statements -/",
           "def red : RedProg :=", "  { earlyExit := %s, quotientFromFloat := %s," % (b(early), b(setq)),
           "    body := " + lean_list(red, "    ") + " }", "",
           "/-- SWAP: the unrolled integer statements (everything else in SWAP is mpf arithmetic) -/",
           "def swap : SwapProg :=", "  { body := " + lean_list(swap, "    ") + " }", "",
           "/-- quat_lattice_lll: events in textual order and the shape of the main loop -/",
           "def skeleton : Skeleton :=", "  { events := " + lean_list(events, "    ") + ",",
           "    loop := { kInit := %d, kBound := %d, zeroTest := %s, zeroTestReturnsMinus1 := %s," % (loop["kInit"], loop["kBound"], loop["zeroTest"], b(loop["zret"])),
           "              firstRedL := Idx.kMinus1, swapK := Idx.k, kAfterSwapMax1 := true,",
           "              elseRedFrom := -2, elseRedDownTo := 0, kIncrAfterElse := true } }", "",
           "end SqiGen.LllOps", ""]
    changed = write_if_changed(os.path.join(outdir, "LllOps.lean"), "\n".join(out))
    return ["SqiGen/LllOps.lean regenerated (%d RED + %d SWAP statements)" % (len(red), len(swap))] if changed else []


if __name__ == "__main__":
    import vlib
    print(generate(vlib.REPO, os.path.join(vlib.LEAN, "SqiGen")))

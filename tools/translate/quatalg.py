"""Translator T (C14): straight-line `ibz_*` bodies of src/quaternion/ref/generic/algebra.c -> lean/SqiGen/QuatAlg.lean.

Translated: `quat_alg_mul` (the coordinate formula of the algebra (-1,-p)), `quat_alg_conj`, and (extension d3)
`quat_alg_coord_add/sub`, `quat_alg_equal_denom`, `quat_alg_add`, `quat_alg_sub`, `quat_alg_norm`, `quat_alg_trace` (the two
arguments handed to `ibq_set`), `quat_alg_scalar`, `quat_alg_elem_copy_ibz`, `quat_alg_elem_mul_by_scalar`.
Extension of the subset: fixed `for (int i = 0; i < 4; i++) { ... }` loops are unrolled textually; `x.f` = `x->f`;
`ibz_gcd` -> `Int.gcd` (as Int), `ibz_div(q, r, a, b)` -> `Int.tdiv` / `Int.tmod`; `quat_alg_elem_init` (denom 1, coords 0);
`ibq_set(res, n, d)` records the pair (n, d); calls of already translated functions of this file become calls of the
generated definitions (actual arguments resolved through the same SSA environment).
Accepted subset (anything else is refused loudly): local declarations, `ibz_init/finalize`,
`quat_alg_coord_init/finalize`, `ibz_set(&x, <int literal>)`, `ibz_copy/neg(&d, &s)`, `ibz_add/sub/mul(&d, &a, &b)`
on the operands `prod`, `sum[i]`, `<arg>->denom`, `<arg>->coord[i]`, `alg->p`.  Output: one Lean `def` per function
as a `let` chain in SSA order (in-place updates become shadowing) over `Int`.
Aliasing: the callers use `res == a` (ideal.c: quat_alg_mul(&gen,&gen,alpha,alg)); the generated definition is the
no-alias semantics, valid iff no field of an input is read after the same field of `res` was written — checked here.
"""
import os, re, sys

sys.path.insert(0, os.path.dirname(os.path.dirname(os.path.abspath(__file__))))
from vlib import write_if_changed


class TranslateError(Exception):
    pass


def strip_c_comments(s):
    s = re.sub(r"/\*.*?\*/", "", s, flags=re.S)
    return re.sub(r"//[^\n]*", "", s)


def func_body(src, name, allow_if=False):
    m = re.search(r"\bvoid\s+%s\s*\(([^)]*)\)\s*\{" % re.escape(name), src)
    if not m:
        raise TranslateError("function %s not found in algebra.c" % name)
    i, depth = m.end(), 1
    while depth:
        if i >= len(src):
            raise TranslateError("unbalanced braces in %s" % name)
        depth += {"{": 1, "}": -1}.get(src[i], 0)
        i += 1
    return m.group(1), unroll(src[m.end():i - 1], name, allow_if)


FOR4 = re.compile(r"for\s*\(\s*int\s+(\w+)\s*=\s*0\s*;\s*(\w+)\s*<\s*4\s*;\s*(\w+)\+\+\s*\)\s*\{([^{}]*)\}")


INNER4 = re.compile(r"for\s*\(\s*int\s+(\w+)\s*=\s*0\s*;\s*\1\s*<\s*4\s*;\s*\1\+\+\s*\)\s*([^;{}]*;)")


def unroll_nested(body, name):
    """braceless inner `for (int j = 0; j < 4; j++) stmt;` and, in the outer fixed loop, `if (i) stmt;` (taken iff the unrolled
    index is non-zero) and the index `[i - 1]`"""
    def inner(m):
        v = m.group(1)
        if re.search(r"\b%s\b" % v, re.sub(r"\[\s*%s\s*\]" % v, "[]", m.group(2))):
            raise TranslateError("%s: inner loop variable used outside an index" % name)
        return "".join(re.sub(r"\[\s*%s\s*\]" % v, "[%d]" % k, m.group(2)) for k in range(4))
    body = INNER4.sub(inner, body)

    def outer(m):
        v, blk, out = m.group(1), m.group(4), []
        if m.group(2) != v or m.group(3) != v:
            raise TranslateError("%s: loop header not in subset" % name)
        for k in range(4):
            b = re.sub(r"\bif\s*\(\s*%s\s*\)\s*([^;{}]*;)" % v, (lambda mm: mm.group(1)) if k else "", blk)
            if k:
                b = re.sub(r"\[\s*%s\s*-\s*1\s*\]" % v, "[%d]" % (k - 1), b)
            b = re.sub(r"\[\s*%s\s*\]" % v, "[%d]" % k, b)
            if re.search(r"\b%s\b" % v, b):
                raise TranslateError("%s: loop variable used outside the subset" % name)
            out.append(b)
        return "".join(out)
    return FOR4.sub(outer, body)


def unroll(body, name, allow_if=False):
    if name == "quat_alg_rightmul_mat":
        body = unroll_nested(body, name)
    def rep(m):
        v = m.group(1)
        if m.group(2) != v or m.group(3) != v:
            raise TranslateError("%s: loop header not in subset: %r" % (name, m.group(0)[:60]))
        blk = m.group(4)
        if re.search(r"\b%s\b(?!\s*\])" % v, re.sub(r"\[\s*%s\s*\]" % v, "[]", blk)):
            raise TranslateError("%s: loop variable used outside an index" % name)
        return "".join(re.sub(r"\[\s*%s\s*\]" % v, "[%d]" % k, blk) for k in range(4))
    body = FOR4.sub(rep, body)
    if allow_if:  # one-armed `if (0 < ibz_cmp(&a, &b)) { straight-line }` -> markers handled by translate
        body = re.sub(r"\bif\s*\(\s*0\s*<\s*ibz_cmp\s*\(([^;{}()]*(?:\([^;{}()]*\)[^;{}()]*)*)\)\s*\)\s*\{([^{}]*)\}",
                      lambda m: "IF_GT_BEGIN(%s);%s;IF_END();" % (m.group(1), m.group(2)), body)
    if allow_if:  # `if (!ibz_is_one(&a)) { straight-line }`
        body = re.sub(r"\bif\s*\(\s*!\s*ibz_is_one\s*\(([^;{}()]*)\)\s*\)\s*\{([^{}]*)\}",
                      lambda m: "IF_NE1_BEGIN(%s);%s;IF_END();" % (m.group(1), m.group(2)), body)
    if re.search(r"\b(for|while|if|else|goto|switch)\b", body):
        raise TranslateError("%s: control flow outside the subset" % name)
    return body


def norm(e):
    e = e.strip()
    while e.startswith("&"):
        e = e[1:].strip()
    e = re.sub(r"\s+", "", e)
    while e.startswith("(") and e.endswith(")"):
        e = e[1:-1]
    e = e.replace("(*", "").replace(")", "").replace("(", "")
    e = re.sub(r"\.(denom|coord)\b", r"->\1", e)
    return e


OPERAND = re.compile(r"^(?:[A-Za-z_]\w*|[A-Za-z_]\w*\[\d\]|[A-Za-z_]\w*\[\d\]\[\d\]|[A-Za-z_]\w*->(?:denom|p|num|den|coord\[\d\]|basis\[\d\]\[\d\]))$")

# signatures of the translated functions (for calls): (kind, direction) per C parameter, in order
ELEM = lambda x: ["%s->denom" % x] + ["%s->coord[%d]" % (x, i) for i in range(4)]
COORD = lambda x: ["%s[%d]" % (x, i) for i in range(4)]
SIGS = {
    "quat_alg_coord_add": [("coord", "out"), ("coord", "in"), ("coord", "in")],
    "quat_alg_coord_sub": [("coord", "out"), ("coord", "in"), ("coord", "in")],
    "quat_alg_equal_denom": [("elem", "out"), ("elem", "out"), ("elem", "in"), ("elem", "in")],
    "quat_alg_conj": [("elem", "out"), ("elem", "in")],
    "quat_alg_mul": [("elem", "out"), ("elem", "in"), ("elem", "in"), ("alg", "in")],
}


def fields(kind, x):
    return {"elem": ELEM, "coord": COORD, "alg": lambda y: ["%s->p" % y]}[kind](x)


def proj(k, n):
    return ".2" * k + ("" if k == n - 1 else ".1") if n > 1 else ""


def translate(src, name, inputs, outputs, out_arg, check_alias=True, done=(), allow_if=False):
    """inputs: dict operand -> lean variable; outputs: list of operands read at the end"""
    _, body = func_body(src, name, allow_if)
    env = dict(inputs)
    branch = []  # [condition, snapshot of env] while inside the one-armed if
    lets, n = [], [0]
    written_out = set()
    outs = (out_arg,) if isinstance(out_arg, str) else tuple(out_arg)
    local = set()

    def rd(op):
        op = norm(op)
        if not OPERAND.match(op):
            raise TranslateError("%s: operand not in subset: %r" % (name, op))
        m = re.match(r"^(\w+)->(.+)$", op)
        if m and m.group(1) not in outs and m.group(1) not in local and m.group(1) != "alg" \
                and m.group(2) in written_out and check_alias:
            raise TranslateError("%s: alias hazard: %s read after %s->%s was written" % (name, op, out_arg, m.group(2)))
        if op not in env:
            raise TranslateError("%s: read of unassigned operand %s" % (name, op))
        return env[op]

    def wr(op, expr):
        op = norm(op)
        if not OPERAND.match(op):
            raise TranslateError("%s: destination not in subset: %r" % (name, op))
        m = re.match(r"^(\w+)->(.+)$", op)
        if m and m.group(1) not in local:
            if m.group(1) not in outs:
                raise TranslateError("%s: write to input %s" % (name, op))
            written_out.add(m.group(2))
        if not m and op.split("[")[0] not in local and op.split("[")[0] not in outs:
            raise TranslateError("%s: write to input %s" % (name, op))
        n[0] += 1
        v = "t%d" % n[0]
        lets.append("  let %s : Int := %s" % (v, expr))
        env[op] = v

    for st in body.split(";"):
        st = st.strip()
        if not st:
            continue
        md = re.match(r"^(ibz_t|quat_alg_coord_t|quat_alg_elem_t)\s+([\w\s,]+)$", st)
        if md:
            local.update(x.strip() for x in md.group(2).split(","))
            continue
        m = re.match(r"^(\w+)\s*\((.*)\)$", st, re.S)
        if not m:
            raise TranslateError("%s: statement not in subset: %r" % (name, st))
        f, args = m.group(1), [a for a in re.split(r",(?![^\[]*\])", m.group(2))]
        if f in ("ibz_finalize", "quat_alg_coord_finalize", "quat_alg_elem_finalize"):
            continue
        if f == "IF_GT_BEGIN":
            if branch or len(args) != 2:
                raise TranslateError("%s: nested / malformed if" % name)
            a, b = rd(args[0]), rd(args[1])
            branch.append(("%s < %s" % (b, a), dict(env))); continue  # 0 < cmp(a, b)  <=>  b < a
        if f == "IF_NE1_BEGIN":
            if branch or len(args) != 1:
                raise TranslateError("%s: nested / malformed if" % name)
            branch.append(("¬(%s = 1)" % rd(args[0]), dict(env))); continue
        if f == "assert":  # debug-only (NDEBUG builds drop it); the divisibilities are hypotheses of o0basis_exact
            continue
        if f == "IF_END":
            cond, snap = branch.pop()
            for op in list(env):
                if op not in snap:
                    raise TranslateError("%s: %s first assigned inside a branch" % (name, op))
                if env[op] != snap[op]:
                    n[0] += 1
                    v = "t%d" % n[0]
                    lets.append("  let %s : Int := if %s then %s else %s" % (v, cond, env[op], snap[op]))
                    env[op] = v
            continue
        if f == "ibz_content":  # header inline: gcd(v[3], gcd(v[2], gcd(v[0], v[1]))) (dim4 tie H op m.content)
            c = [rd(o) for o in COORD(norm(args[1]))]
            g = lambda a, b: "((Int.gcd %s %s : Nat) : Int)" % (a, b)
            wr(args[0], g(c[3], g(c[2], g(c[0], c[1])))); continue
        if f == "quat_alg_elem_init":
            x = norm(args[0])
            wr("%s->denom" % x, "1")
            for i in range(4):
                wr("%s->coord[%d]" % (x, i), "0")
            continue
        if f == "ibz_gcd":
            a, b = rd(args[1]), rd(args[2])
            wr(args[0], "((Int.gcd %s %s : Nat) : Int)" % (a, b)); continue
        if f == "ibz_div":
            a, b = rd(args[2]), rd(args[3])
            wr(args[0], "Int.tdiv %s %s" % (a, b))
            wr(args[1], "Int.tmod %s %s" % (a, b)); continue
        if f == "ibq_set":
            a, b = rd(args[1]), rd(args[2])
            x = norm(args[0])
            wr("%s->num" % x, a); wr("%s->den" % x, b); continue
        if f in SIGS and f in done:
            sig = SIGS[f]
            if len(args) != len(sig):
                raise TranslateError("%s: call of %s with %d arguments" % (name, f, len(args)))
            ins = []
            for a, (kind, d) in sorted(zip(args, sig), key=lambda z: z[1][0] != "alg"):  # generated defs take p first
                if d == "in":
                    ins += [rd(o) for o in fields(kind, norm(a))]
            n[0] += 1
            c = "c%d" % n[0]
            lets.append("  let %s := %s %s" % (c, f, " ".join(ins)))
            ows = []
            for a, (kind, d) in zip(args, sig):
                if d == "out":
                    ows += fields(kind, norm(a))
            for k, o in enumerate(ows):
                wr(o, "%s%s" % (c, proj(k, len(ows))))
            continue
        if f == "ibz_init":
            wr(args[0], "0"); continue
        if f == "quat_alg_coord_init":
            for i in range(4):
                wr("%s[%d]" % (norm(args[0]), i), "0")
            continue
        if f == "ibz_set":
            lit = args[1].strip()
            if not re.match(r"^-?\d+$", lit):
                raise TranslateError("%s: ibz_set with non-literal %r" % (name, lit))
            wr(args[0], lit if not lit.startswith("-") else "(%s)" % lit); continue
        if f == "ibz_copy":
            wr(args[0], rd(args[1])); continue
        if f == "ibz_abs":
            wr(args[0], "((Int.natAbs %s : Nat) : Int)" % rd(args[1])); continue
        if f == "ibz_neg":
            wr(args[0], "-%s" % rd(args[1])); continue
        if f in ("ibz_add", "ibz_sub", "ibz_mul"):
            a, b = rd(args[1]), rd(args[2])
            wr(args[0], "%s %s %s" % (a, {"ibz_add": "+", "ibz_sub": "-", "ibz_mul": "*"}[f], b)); continue
        raise TranslateError("%s: call not in subset: %s" % (name, f))
    res = []
    for o in outputs:
        if o not in env:
            raise TranslateError("%s: output %s never written" % (name, o))
        res.append(env[o])
    return lets, res


def translate_pred(src, name, inputs, done=()):
    """int-valued predicates: `int res = 1 | <translated predicate>(&arg)`, `res &= ibz_is_zero(&op)` (ibz_is_zero returns 0/1,
    so `&=` on an int that is 0/1 is the Boolean and), `return (res)`.  Result: Bool let-chain."""
    m = re.search(r"\bint\s+%s\s*\(([^)]*)\)\s*\{" % re.escape(name), src)
    if not m:
        raise TranslateError("function %s not found in algebra.c" % name)
    j, depth = m.end(), 1
    while depth:
        depth += {"{": 1, "}": -1}.get(src[j], 0)
        j += 1
    body = unroll(src[m.end():j - 1], name)
    lets, cur, k, ret = [], None, 0, None
    for st in body.split(";"):
        st = st.strip()
        if not st:
            continue
        if ret is not None:
            raise TranslateError("%s: statement after return" % name)
        k += 1
        m1 = re.match(r"^int\s+res\s*=\s*1$", st)
        m2 = re.match(r"^int\s+res\s*=\s*(\w+)\s*\((.*)\)$", st)
        m3 = re.match(r"^res\s*&=\s*ibz_is_zero\s*\((.*)\)$", st)
        m4 = re.match(r"^return\s*\(?\s*res\s*\)?$", st)
        if m1:
            lets.append("  let r%d : Bool := true" % k); cur = "r%d" % k
        elif m2 and m2.group(1) in done:
            x = norm(m2.group(2))
            if not x.endswith("->coord"):
                raise TranslateError("%s: argument not in subset: %s" % (name, x))
            lets.append("  let r%d : Bool := %s %s" % (k, m2.group(1), " ".join(inputs["%s[%d]" % (x, i)] for i in range(4))))
            cur = "r%d" % k
        elif m3 and cur:
            op = norm(m3.group(1))
            if op not in inputs:
                raise TranslateError("%s: operand not an input: %s" % (name, op))
            lets.append("  let r%d : Bool := %s && (%s == 0)" % (k, cur, inputs[op])); cur = "r%d" % k
        elif m4 and cur:
            ret = cur
        else:
            raise TranslateError("%s: statement not in subset: %r" % (name, st))
    if ret is None:
        raise TranslateError("%s: no return" % name)
    return lets, ret


def generate(repo, outdir):
    path = os.path.join(repo, "src/quaternion/ref/generic/algebra.c")
    src = strip_c_comments(open(path).read())
    elem = lambda x: {"%s->denom" % x: "%sd" % x, **{"%s->coord[%d]" % (x, i): "%s%d" % (x, i) for i in range(4)}}
    coord = lambda x: {"%s[%d]" % (x, i): "%s%d" % (x, i) for i in range(4)}
    T5 = "Int × Int × Int × Int × Int"
    T4 = "Int × Int × Int × Int"
    out = ["/- GENERATED by tools/translate/quatalg.py from src/quaternion/ref/generic/algebra.c — do not edit. -/",
           "set_option linter.unusedVariables false", "namespace SqiGen.QuatAlg", ""]
    done = []
    # (name, inputs, outputs, out args, lean parameter list, lean result type, alias check)
    # order = dependency order of the calls.  quat_alg_equal_denom is only ever called with fresh locals as outputs
    # (quat_alg_add / quat_alg_sub, checked below by translating exactly those calls), so no alias check for it.
    jobs = [
        ("quat_alg_mul", {**elem("a"), **elem("b"), "alg->p": "p"}, ELEM("res"), "res",
         "p ad a0 a1 a2 a3 bd b0 b1 b2 b3", T5, True),
        ("quat_alg_conj", elem("x"), ELEM("conj"), "conj", "xd x0 x1 x2 x3", T5, True),
        ("quat_alg_coord_add", {**coord("a"), **coord("b")}, COORD("res"), "res", "a0 a1 a2 a3 b0 b1 b2 b3", T4, True),
        ("quat_alg_coord_sub", {**coord("a"), **coord("b")}, COORD("res"), "res", "a0 a1 a2 a3 b0 b1 b2 b3", T4, True),
        ("quat_alg_equal_denom", {**elem("a"), **elem("b")}, ELEM("res_a") + ELEM("res_b"), ("res_a", "res_b"),
         "ad a0 a1 a2 a3 bd b0 b1 b2 b3", T5 + " × " + T5, False),
        ("quat_alg_add", {**elem("a"), **elem("b")}, ELEM("res"), "res", "ad a0 a1 a2 a3 bd b0 b1 b2 b3", T5, True),
        ("quat_alg_sub", {**elem("a"), **elem("b")}, ELEM("res"), "res", "ad a0 a1 a2 a3 bd b0 b1 b2 b3", T5, True),
        ("quat_alg_norm", {**elem("a"), "alg->p": "p"}, ["res->num", "res->den"], "res", "p ad a0 a1 a2 a3", "Int × Int", True),
        ("quat_alg_trace", elem("a"), ["res->num", "res->den"], "res", "ad a0 a1 a2 a3", "Int × Int", True),
        ("quat_alg_scalar", {"numerator": "num", "denominator": "den"}, ELEM("elem"), "elem", "num den", T5, True),
        ("quat_alg_elem_copy_ibz", {"denom": "d", **{"coord%d" % i: "c%d_" % i for i in range(4)}}, ELEM("elem"), "elem",
         "d c0_ c1_ c2_ c3_", T5, True),
        ("quat_alg_normalize", elem("x"), ELEM("x"), "x", "xd x0 x1 x2 x3", T5, True),
        ("from_1ijk_to_O0basis", elem("el"), COORD("vec"), "vec", "eld el0 el1 el2 el3", T4, True),
        ("quat_alg_rightmul_mat", {**elem("a"), "alg->p": "p"}, ["mulmat[%d][%d]" % (r, c) for r in range(4) for c in range(4)],
         "mulmat", "p ad a0 a1 a2 a3", " × ".join(["Int"] * 16), True),
        ("quat_alg_elem_mul_by_scalar", {"scalar": "s", **elem("elem")}, ELEM("res"), "res",
         "s elemd elem0 elem1 elem2 elem3", T5, True),
    ]
    for name, inputs, outputs, oa, params, ty, chk in jobs:
        lets, res = translate(src, name, inputs, outputs, oa, check_alias=chk, done=tuple(done),
                              allow_if=(name in ("quat_alg_normalize", "from_1ijk_to_O0basis")))
        out += ["/-- `%s`: %s -/" % (name, ", ".join(outputs)),
                "def %s (%s : Int) : %s :=" % (name, params, ty)] + lets + ["  (%s)" % ", ".join(res), ""]
        done.append(name)
    # lattice.c: quat_lattice_index (only the denominators and the diagonal entries may be read)
    lsrc = strip_c_comments(open(os.path.join(repo, "src/quaternion/ref/generic/lattice.c")).read())
    lat = lambda x, v: {"%s->denom" % x: "%sd" % v, **{"%s->basis[%d][%d]" % (x, i, i): "%s%d" % (v, i) for i in range(4)}}
    lets, res = translate(lsrc, "quat_lattice_index", {**lat("sublat", "s"), **lat("overlat", "o")}, ["index"], "index")
    out += ["/-- `quat_lattice_index` (lattice.c): sd, s0..s3 = denominator and diagonal of sublat, od, o0..o3 of overlat -/",
            "def quat_lattice_index (sd s0 s1 s2 s3 od o0 o1 o2 o3 : Int) : Int :="] + lets + ["  %s" % res[0], ""]
    lets, r = translate_pred(src, "quat_alg_coord_is_zero", coord("x"))
    out += ["/-- `quat_alg_coord_is_zero` (C int 0/1 as Bool) -/",
            "def quat_alg_coord_is_zero (x0 x1 x2 x3 : Int) : Bool :="] + lets + ["  " + r, ""]
    lets, r = translate_pred(src, "quat_alg_elem_is_zero", {"x->coord[%d]" % i: "x%d" % i for i in range(4)},
                             done=("quat_alg_coord_is_zero",))
    out += ["/-- `quat_alg_elem_is_zero` (the denominator is not read) -/",
            "def quat_alg_elem_is_zero (xd x0 x1 x2 x3 : Int) : Bool :="] + lets + ["  " + r, ""]
    out += ["end SqiGen.QuatAlg", ""]
    changed = write_if_changed(os.path.join(outdir, "QuatAlg.lean"), "\n".join(out))
    return ["QuatAlg.lean regenerated"] if changed else []


if __name__ == "__main__":
    import vlib
    print(generate(vlib.REPO, os.path.join(vlib.LEAN, "SqiGen")))

"""Translator T (C14): straight-line `ibz_*` bodies of src/quaternion/ref/generic/algebra.c -> lean/SqiGen/QuatAlg.lean.

Translated: `quat_alg_mul` (the coordinate formula of the algebra (-1,-p)) and `quat_alg_conj`.
Accepted subset (anything else is refused loudly): local declarations, `ibz_init/finalize`,
`quat_alg_coord_init/finalize`, `ibz_set(&x, <int literal>)`, `ibz_copy/neg(&d, &s)`, `ibz_add/sub/mul(&d, &a, &b)`
on the operands `prod`, `sum[i]`, `<arg>->denom`, `<arg>->coord[i]`, `alg->p`.  Output: one Lean `def` per function
as a `let` chain in SSA order (in-place updates become shadowing) over `Int`.
Aliasing: the callers use `res == a` (ideal.c: quat_alg_mul(&gen,&gen,alpha,alg)); the generated definition is the
no-alias semantics, valid iff no field of an input is read after the same field of `res` was written — checked here.
"""
import os, re, sys

sys.path.insert(0, os.path.dirname(os.path.dirname(os.path.abspath(__file__))))
from vlib import write_if_changed


class TranslateError(Exception):
    pass


def strip_c_comments(s):
    s = re.sub(r"/\*.*?\*/", "", s, flags=re.S)
    return re.sub(r"//[^\n]*", "", s)


def func_body(src, name):
    m = re.search(r"\bvoid\s+%s\s*\(([^)]*)\)\s*\{" % re.escape(name), src)
    if not m:
        raise TranslateError("function %s not found in algebra.c" % name)
    i, depth = m.end(), 1
    while depth:
        if i >= len(src):
            raise TranslateError("unbalanced braces in %s" % name)
        depth += {"{": 1, "}": -1}.get(src[i], 0)
        i += 1
    return m.group(1), src[m.end():i - 1]


def norm(e):
    e = e.strip()
    while e.startswith("&"):
        e = e[1:].strip()
    e = re.sub(r"\s+", "", e)
    while e.startswith("(") and e.endswith(")"):
        e = e[1:-1]
    e = e.replace("(*", "").replace(")", "").replace("(", "")
    return e


OPERAND = re.compile(r"^(?:[A-Za-z_]\w*|[A-Za-z_]\w*\[\d\]|[A-Za-z_]\w*->(?:denom|p|coord\[\d\]))$")


def translate(src, name, inputs, outputs, out_arg):
    """inputs: dict operand -> lean variable; outputs: list of operands read at the end"""
    _, body = func_body(src, name)
    env = dict(inputs)
    lets, n = [], [0]
    written_out = set()

    def rd(op):
        op = norm(op)
        if not OPERAND.match(op):
            raise TranslateError("%s: operand not in subset: %r" % (name, op))
        m = re.match(r"^(\w+)->(.+)$", op)
        if m and m.group(1) != out_arg and m.group(1) != "alg" and m.group(2) in written_out:
            raise TranslateError("%s: alias hazard: %s read after %s->%s was written" % (name, op, out_arg, m.group(2)))
        if op not in env:
            raise TranslateError("%s: read of unassigned operand %s" % (name, op))
        return env[op]

    def wr(op, expr):
        op = norm(op)
        if not OPERAND.match(op):
            raise TranslateError("%s: destination not in subset: %r" % (name, op))
        m = re.match(r"^(\w+)->(.+)$", op)
        if m:
            if m.group(1) != out_arg:
                raise TranslateError("%s: write to input %s" % (name, op))
            written_out.add(m.group(2))
        n[0] += 1
        v = "t%d" % n[0]
        lets.append("  let %s : Int := %s" % (v, expr))
        env[op] = v

    for st in body.split(";"):
        st = st.strip()
        if not st:
            continue
        if re.match(r"^(ibz_t|quat_alg_coord_t|quat_alg_elem_t)\s+[\w\s,]+$", st):
            continue
        m = re.match(r"^(\w+)\s*\((.*)\)$", st, re.S)
        if not m:
            raise TranslateError("%s: statement not in subset: %r" % (name, st))
        f, args = m.group(1), [a for a in re.split(r",(?![^\[]*\])", m.group(2))]
        if f in ("ibz_finalize", "quat_alg_coord_finalize"):
            continue
        if f == "ibz_init":
            wr(args[0], "0"); continue
        if f == "quat_alg_coord_init":
            for i in range(4):
                wr("%s[%d]" % (norm(args[0]), i), "0")
            continue
        if f == "ibz_set":
            lit = args[1].strip()
            if not re.match(r"^-?\d+$", lit):
                raise TranslateError("%s: ibz_set with non-literal %r" % (name, lit))
            wr(args[0], lit if not lit.startswith("-") else "(%s)" % lit); continue
        if f == "ibz_copy":
            wr(args[0], rd(args[1])); continue
        if f == "ibz_neg":
            wr(args[0], "-%s" % rd(args[1])); continue
        if f in ("ibz_add", "ibz_sub", "ibz_mul"):
            a, b = rd(args[1]), rd(args[2])
            wr(args[0], "%s %s %s" % (a, {"ibz_add": "+", "ibz_sub": "-", "ibz_mul": "*"}[f], b)); continue
        raise TranslateError("%s: call not in subset: %s" % (name, f))
    res = []
    for o in outputs:
        if o not in env:
            raise TranslateError("%s: output %s never written" % (name, o))
        res.append(env[o])
    return lets, res


def generate(repo, outdir):
    path = os.path.join(repo, "src/quaternion/ref/generic/algebra.c")
    src = strip_c_comments(open(path).read())
    elem = lambda x: {"%s->denom" % x: "%sd" % x, **{"%s->coord[%d]" % (x, i): "%s%d" % (x, i) for i in range(4)}}
    out = ["/- GENERATED by tools/translate/quatalg.py from src/quaternion/ref/generic/algebra.c — do not edit. -/",
           "namespace SqiGen.QuatAlg", ""]
    lets, res = translate(src, "quat_alg_mul", {**elem("a"), **elem("b"), "alg->p": "p"},
                          ["res->denom"] + ["res->coord[%d]" % i for i in range(4)], "res")
    out += ["/-- `quat_alg_mul`: (denom, coord0..3) of the result -/",
            "def quat_alg_mul (p ad a0 a1 a2 a3 bd b0 b1 b2 b3 : Int) : Int × Int × Int × Int × Int :="] + lets + \
           ["  (%s)" % ", ".join(res), ""]
    lets, res = translate(src, "quat_alg_conj", elem("x"),
                          ["conj->denom"] + ["conj->coord[%d]" % i for i in range(4)], "conj")
    out += ["/-- `quat_alg_conj` -/",
            "def quat_alg_conj (xd x0 x1 x2 x3 : Int) : Int × Int × Int × Int × Int :="] + lets + \
           ["  (%s)" % ", ".join(res), "", "end SqiGen.QuatAlg", ""]
    changed = write_if_changed(os.path.join(outdir, "QuatAlg.lean"), "\n".join(out))
    return ["QuatAlg.lean regenerated"] if changed else []


if __name__ == "__main__":
    import vlib
    print(generate(vlib.REPO, os.path.join(vlib.LEAN, "SqiGen")))

"""Translator T (C14): small loop programs of dim4.c / lattice.c -> lean/SqiGen/QuatMat.lean.

Translated from the C text on every run:
  * `ibz_mat_4x4_gcd`           (dim4.c)    content of a 4x4 matrix: which entries are scanned, in which order
  * `ibz_mat_4x4_scalar_div`    (dim4.c)    entrywise truncated division + "all remainders zero" flag
  * `quat_lattice_reduce_denom` (lattice.c) call skeleton over the three routines above and ibz_gcd / ibz_div
Accepted subset (anything else is refused loudly): local declarations `ibz_t x;` / `int res = <lit>;`, `ibz_init/finalize`,
`for (int V = A; V < B; V++) { ... }` with A, B integer expressions over literals and enclosing loop variables (loops are
unrolled), `ibz_copy/gcd/div(...)`, `res = res && ibz_is_zero(&r);`, `return (res);`, and in reduce_denom the calls
`ibz_mat_4x4_gcd`, `ibz_gcd`, `ibz_mat_4x4_scalar_div`, `ibz_div`.  Operands: locals, `*out`, `(*mat)[i][j]`, `scalar`,
`lat->denom`, `lat->basis`, `reduced->denom`, `reduced->basis`.
The generated defs are parameterised by the integer primitives (`gcd`, `tdiv`, `tmod`) and, for reduce_denom, by the two
matrix routines, so the file imports nothing; SqiProps/C14.lean instantiates them with the model and proves
generated = hand model (a scan restricted to part of the matrix, a changed operand or a dropped call breaks that proof).
"""
import os, re, sys

sys.path.insert(0, os.path.dirname(os.path.dirname(os.path.abspath(__file__))))
from vlib import write_if_changed


class TranslateError(Exception):
    pass


def strip_c_comments(s):
    s = re.sub(r"/\*.*?\*/", "", s, flags=re.S)
    return re.sub(r"//[^\n]*", "", s)


def func_body(src, name):
    m = re.search(r"\b(?:void|int)\s+%s\s*\(([^)]*)\)\s*\{" % re.escape(name), src)
    if not m:
        raise TranslateError("function %s not found" % name)
    i, depth = m.end(), 1
    while depth:
        if i >= len(src):
            raise TranslateError("unbalanced braces in %s" % name)
        depth += {"{": 1, "}": -1}.get(src[i], 0)
        i += 1
    return src[m.end():i - 1]


def parse_block(s, name):
    """-> list of ('stmt', text) | ('for', var, lo, hi, body)"""
    out, i, n = [], 0, len(s)
    while i < n:
        if s[i].isspace():
            i += 1
            continue
        m = re.match(r"for\s*\(\s*int\s+(\w+)\s*=\s*([^;]+);\s*(\w+)\s*<\s*([^;]+);\s*(\w+)\s*\+\+\s*\)\s*\{", s[i:])
        if m:
            if not (m.group(1) == m.group(3) == m.group(5)):
                raise TranslateError("%s: for-loop header not in subset: %r" % (name, m.group(0)))
            j, depth = i + m.end(), 1
            while depth:
                if j >= n:
                    raise TranslateError("%s: unbalanced loop body" % name)
                depth += {"{": 1, "}": -1}.get(s[j], 0)
                j += 1
            out.append(("for", m.group(1), m.group(2).strip(), m.group(4).strip(), parse_block(s[i + m.end():j - 1], name)))
            i = j
            continue
        j = s.find(";", i)
        if j < 0:
            if s[i:].strip():
                raise TranslateError("%s: trailing text not in subset: %r" % (name, s[i:].strip()[:60]))
            break
        out.append(("stmt", s[i:j].strip()))
        i = j + 1
    return out


def ev(e, env, name):
    e = e.strip()
    if not re.match(r"^[\w\s+\-()]+$", e):
        raise TranslateError("%s: index/bound expression not in subset: %r" % (name, e))
    try:
        return int(eval(e, {"__builtins__": {}}, dict(env)))
    except Exception as ex:
        raise TranslateError("%s: cannot evaluate %r (%s)" % (name, e, ex))


def norm_operand(a, env, name):
    a = re.sub(r"\s+", "", a)
    while a.startswith("&"):
        a = a[1:]
    while a.startswith("(") and a.endswith(")") and a.count("(") == a.count(")"):
        inner = a[1:-1]
        depth, ok = 0, True
        for ch in inner:
            depth += {"(": 1, ")": -1}.get(ch, 0)
            if depth < 0:
                ok = False
                break
        if not ok:
            break
        a = inner
        while a.startswith("&"):
            a = a[1:]
    m = re.match(r"^\(?\*(\w+)\)?\[([^\]]+)\]\[([^\]]+)\]$", a)
    if m:
        return "%s[%d][%d]" % (m.group(1), ev(m.group(2), env, name), ev(m.group(3), env, name))
    if re.match(r"^\w+(->\w+)?$", a):
        return a
    raise TranslateError("%s: operand not in subset: %r" % (name, a))


def split_args(s):
    args, depth, cur = [], 0, ""
    for ch in s:
        if ch == "," and depth == 0:
            args.append(cur); cur = ""; continue
        depth += {"(": 1, "[": 1, ")": -1, "]": -1}.get(ch, 0)
        cur += ch
    if cur.strip():
        args.append(cur)
    return args


class Emit:
    def __init__(self, name, inputs):
        self.name, self.env, self.lets, self.n = name, dict(inputs), [], 0

    def rd(self, op):
        if op not in self.env:
            raise TranslateError("%s: read of unassigned operand %s" % (self.name, op))
        return self.env[op]

    def wr(self, op, expr, ty="Int"):
        self.n += 1
        v = "t%d" % self.n
        self.lets.append("  let %s : %s := %s" % (v, ty, expr))
        self.env[op] = v


def run_block(block, em, env, handlers):
    for st in block:
        if st[0] == "for":
            _, var, lo, hi, body = st
            for val in range(ev(lo, env, em.name), ev(hi, env, em.name)):
                run_block(body, em, dict(env, **{var: val}), handlers)
            continue
        t = st[1]
        if not t or re.match(r"^ibz_t\s+[\w\s,]+$", t):
            continue
        m = re.match(r"^int\s+(\w+)\s*=\s*(-?\d+)$", t)
        if m:
            em.wr(m.group(1), "true" if m.group(2) == "1" else "false" if m.group(2) == "0" else None, "Bool")
            if m.group(2) not in ("0", "1"):
                raise TranslateError("%s: int flag initialiser not 0/1" % em.name)
            continue
        m = re.match(r"^(\w+)\s*=\s*\1\s*&&\s*ibz_is_zero\(\s*&?(\w+)\s*\)$", t)
        if m:
            em.wr(m.group(1), "(%s && (%s == 0))" % (em.rd(m.group(1)), em.rd(m.group(2))), "Bool")
            continue
        m = re.match(r"^return\s*\(?\s*(\w+)\s*\)?$", t)
        if m:
            em.env["<return>"] = em.rd(m.group(1))
            continue
        m = re.match(r"^(\w+)\s*\((.*)\)$", t, re.S)
        if not m:
            raise TranslateError("%s: statement not in subset: %r" % (em.name, t))
        f, args = m.group(1), [norm_operand(a, env, em.name) for a in split_args(m.group(2))]
        if f == "ibz_finalize":
            continue
        if f == "ibz_init":
            em.wr(args[0], "0"); continue
        if f not in handlers:
            raise TranslateError("%s: call not in subset: %s" % (em.name, f))
        handlers[f](em, args)


def h_copy(em, a): em.wr(a[0], em.rd(a[1]))
def h_gcd(em, a): em.wr(a[0], "gcd %s %s" % (em.rd(a[1]), em.rd(a[2])))


def h_div(em, a):
    x, y = em.rd(a[2]), em.rd(a[3])           # both outputs are computed from the operands read first (mpz_tdiv_qr)
    em.wr(a[0], "tdiv %s %s" % (x, y))
    em.wr(a[1], "tmod %s %s" % (x, y))


# ------------------------------------------------------------------------------------------------ lattice.c callers
LAT_PARAMS = ("{M V : Type} (mul : Int → Int → Int) (mget : M → Nat → Nat → Int) (mkVec : Int → Int → Int → Int → V)\n"
              "    (scalarMul : Int → M → M) (transpose : M → M) (invWithDet : M → M × Int) (hnfCore : List V → M)\n"
              "    (reduceDenom : Int → M → Int × M)")


class LatEmit(Emit):
    """operands: scalars (Int), matrices (M: `X->basis`, locals `tmp`, `inv`), entries `X[i][j]` of 4x4 locals and of the 4x8
    local `hnf_input` (entries are Int expressions), lattices `dual1`… as pairs of operands `<name>->denom`, `<name>->basis`"""

    def __init__(self, name, inputs, mats):
        super().__init__(name, inputs)
        self.mats = set(mats)

    def rd(self, op):
        m = re.match(r"^(\w+(?:->\w+)?)\[(\d+)\]\[(\d+)\]$", op)
        if m and op not in self.env:
            base = m.group(1)
            if base in self.env:
                return "(mget %s %s %s)" % (self.env[base], m.group(2), m.group(3))
        return super().rd(op)


def lattice_callers(lt):
    out = []

    def handlers(em):
        def h_smul(e, a): e.wr(a[0], "scalarMul %s %s" % (e.rd(a[1]), e.rd(a[2])), "M")
        def h_tr(e, a): e.wr(a[0], "transpose %s" % e.rd(a[1]), "M")
        def h_mul(e, a): e.wr(a[0], "mul %s %s" % (e.rd(a[1]), e.rd(a[2])))
        def h_set(e, a): e.wr(a[0], a[1])

        def h_inv(e, a):
            # callee summary (dim4.c: the inverse is written only when the determinant is non-zero; det always)
            src_ = e.rd(a[2])
            old = e.env.get(a[0])
            e.wr("<r>", "invWithDet %s" % src_, "M × Int")
            r = e.env["<r>"]
            e.wr(a[1], "%s.2" % r)
            e.wr(a[0], ("if %s.2 = 0 then %s else %s.1" % (r, old, r)) if old else "%s.1" % r, "M")

        def h_core(e, a):
            cols = []
            for h in range(8):
                cols.append("mkVec %s" % " ".join(e.rd("%s[%d][%d]" % (a[1], i, h)) for i in range(4)))
            e.wr(a[0], "hnfCore [%s]" % ", ".join(cols), "M")

        def h_red(e, a):
            src_ = a[1]
            e.wr("<rd>", "reduceDenom %s %s" % (e.rd(src_ + "->denom"), e.rd(src_ + "->basis")), "Int × M")
            e.wr(a[0] + "->denom", "%s.1" % e.env["<rd>"])
            e.wr(a[0] + "->basis", "%s.2" % e.env["<rd>"], "M")
        return {"ibz_mat_4x4_scalar_mul": h_smul, "ibz_mat_4x4_transpose": h_tr, "ibz_mul": h_mul, "ibz_copy": h_copy,
                "ibz_set": h_set, "ibz_mat_4x4_inv_with_det_as_denom": h_inv, "ibz_mat_4x8_hnf_core": h_core,
                "quat_lattice_reduce_denom": h_red}

    def pre(body):
        # declarations / init / finalize of matrices and lattices carry no data flow
        body = re.sub(r"\b(ibz_mat_4x8_t|ibz_mat_4x4_t|quat_lattice_t)\s+[\w\s,]+;", "", body)
        body = re.sub(r"\b(ibz_mat_4x8_init|ibz_mat_4x4_init|ibz_mat_4x8_finalize|ibz_mat_4x4_finalize|quat_lattice_init|"
                      r"quat_lattice_finalize)\([^;]*\);", "", body)
        return body

    def norm2(a, env, name):
        a2 = re.sub(r"\s+", "", a)
        while a2.startswith("&"):
            a2 = a2[1:]
        while a2.startswith("(") and a2.endswith(")"):
            a2 = a2[1:-1]
            while a2.startswith("&"):
                a2 = a2[1:]
        m = re.match(r"^(\w+(?:->\w+)?)\[([^\]]+)\]\[([^\]]+)\]$", a2)
        if m:
            return "%s[%d][%d]" % (m.group(1), ev(m.group(2), env, name), ev(m.group(3), env, name))
        if re.match(r"^-?\d+$", a2) or re.match(r"^\w+(->\w+)?$", a2):
            return a2
        raise TranslateError("%s: operand not in subset: %r" % (name, a2))

    global norm_operand
    saved = norm_operand
    norm_operand = norm2
    try:
        # quat_lattice_add
        em = LatEmit("quat_lattice_add", {"lat1->denom": "d1", "lat1->basis": "b1", "lat2->denom": "d2", "lat2->basis": "b2"}, [])
        run_block(parse_block(pre(func_body(lt, "quat_lattice_add")), em.name), em, {}, handlers(em))
        out += ["/-- `quat_lattice_add`: data flow as coded (which basis is scaled by which denominator, which half of the 4x8",
                "    input it fills, HNF, product of denominators, reduce_denom); returns (res->denom, res->basis) -/",
                "def quat_lattice_add %s\n    (d1 : Int) (b1 : M) (d2 : Int) (b2 : M) : Int × M :=" % LAT_PARAMS] + em.lets + \
               ["  (%s, %s)" % (em.rd("res->denom"), em.rd("res->basis")), ""]
        # quat_lattice_hnf
        em = LatEmit("quat_lattice_hnf", {"lat->denom": "d", "lat->basis": "b"}, [])
        run_block(parse_block(pre(func_body(lt, "quat_lattice_hnf")), em.name), em, {}, handlers(em))
        out += ["/-- `quat_lattice_hnf` -/",
                "def quat_lattice_hnf %s\n    (d : Int) (b : M) : Int × M :=" % LAT_PARAMS] + em.lets + \
               ["  (%s, %s)" % (em.rd("lat->denom"), em.rd("lat->basis")), ""]
        # quat_lattice_dual_without_hnf
        em = LatEmit("quat_lattice_dual_without_hnf", {"lat->denom": "d", "lat->basis": "b"}, [])
        run_block(parse_block(pre(func_body(lt, "quat_lattice_dual_without_hnf")), em.name), em, {}, handlers(em))
        out += ["/-- `quat_lattice_dual_without_hnf` (the callee leaves `inv` untouched when the determinant is 0) -/",
                "def quat_lattice_dual_without_hnf %s\n    (d : Int) (b : M) : Int × M :=" % LAT_PARAMS] + em.lets + \
               ["  (%s, %s)" % (em.rd("dual->denom"), em.rd("dual->basis")), ""]
    finally:
        norm_operand = saved
    return out


def generate(repo, outdir):
    d4 = strip_c_comments(open(os.path.join(repo, "src/quaternion/ref/generic/dim4.c")).read())
    lt = strip_c_comments(open(os.path.join(repo, "src/quaternion/ref/generic/lattice.c")).read())
    out = ["/- GENERATED by tools/translate/quatmat.py from src/quaternion/ref/generic/{dim4.c,lattice.c} — do not edit. -/",
           "namespace SqiGen.QuatMat", ""]
    ent = {"mat[%d][%d]" % (i, j): "(m %d %d)" % (i, j) for i in range(4) for j in range(4)}
    # ---- ibz_mat_4x4_gcd
    em = Emit("ibz_mat_4x4_gcd", ent)
    run_block(parse_block(func_body(d4, "ibz_mat_4x4_gcd"), em.name), em, {}, {"ibz_copy": h_copy, "ibz_gcd": h_gcd})
    out += ["/-- `ibz_mat_4x4_gcd`: the scan of the matrix entries exactly as coded (loops unrolled) -/",
            "def ibz_mat_4x4_gcd (gcd : Int → Int → Int) (m : Nat → Nat → Int) : Int :="] + em.lets + ["  %s" % em.rd("gcd"), ""]
    # ---- ibz_mat_4x4_scalar_div
    em = Emit("ibz_mat_4x4_scalar_div", dict(ent, scalar="s"))
    run_block(parse_block(func_body(d4, "ibz_mat_4x4_scalar_div"), em.name), em, {}, {"ibz_div": h_div})
    q = [[em.rd("quot[%d][%d]" % (i, j)) for j in range(4)] for i in range(4)]
    out += ["/-- `ibz_mat_4x4_scalar_div`: (16 quotients row-major, flag) -/",
            "def ibz_mat_4x4_scalar_div (tdiv tmod : Int → Int → Int) (s : Int) (m : Nat → Nat → Int) : List Int × Bool :="] + em.lets + \
           ["  ([%s], %s)" % (", ".join(x for r in q for x in r), em.rd("<return>")), ""]
    # ---- quat_lattice_reduce_denom (call skeleton)
    em = Emit("quat_lattice_reduce_denom", {"lat->denom": "denom", "lat->basis": "basis"})

    def h_mgcd(e, a): e.wr(a[0], "matGcd %s" % e.rd(a[1]))
    def h_sdiv(e, a): e.wr(a[0], "matScalarDiv %s %s" % (e.rd(a[1]), e.rd(a[2])), "M")
    run_block(parse_block(func_body(lt, "quat_lattice_reduce_denom"), em.name), em, {},
              {"ibz_mat_4x4_gcd": h_mgcd, "ibz_gcd": h_gcd, "ibz_mat_4x4_scalar_div": h_sdiv, "ibz_div": h_div})
    out += ["/-- `quat_lattice_reduce_denom`: call skeleton, returns (reduced->denom, reduced->basis).  The callers use",
            "    `reduced == lat`: `lat->basis` is read only by the calls that precede/perform the write of `reduced->basis` and",
            "    `lat->denom` is read by the same call that writes `reduced->denom`, so the no-alias reading is valid. -/",
            "def quat_lattice_reduce_denom {M : Type} (gcd tdiv tmod : Int → Int → Int) (matGcd : M → Int)",
            "    (matScalarDiv : Int → M → M) (denom : Int) (basis : M) : Int × M :="] + em.lets + \
           ["  (%s, %s)" % (em.rd("reduced->denom"), em.rd("reduced->basis")), "", "end SqiGen.QuatMat", ""]
    out.pop(); out.pop()          # reopen the namespace
    out += lattice_callers(lt)
    out += ["end SqiGen.QuatMat", ""]
    changed = write_if_changed(os.path.join(outdir, "QuatMat.lean"), "\n".join(out))
    return ["QuatMat.lean regenerated"] if changed else []


if __name__ == "__main__":
    import vlib
    print(generate(vlib.REPO, os.path.join(vlib.LEAN, "SqiGen")))

#!/usr/bin/env python3
"""Translator T (C19): lexical init/finalize balance of every `return` of the signer-side sources -> lean/SqiGen/ReturnPaths.lean.
For each function, each `return` is listed with the local GMP-backed objects (`ibz_*`, `ibq_*`, `quat_*`, `id2iso_*` `_init(&x …)`)
(and the local theta chains handed to `theta_chain_comput_*` / `fixed_degree_isogeny` / clapotis, released by
`theta_chain_finalize`) that were initialised textually before it in an enclosing block and not finalised before it in an enclosing block. Conservative
and lexical (no path sensitivity: a finalize in a sibling branch does not count, one in an enclosing block does); only `&local`
arguments are tracked (objects reached through `->` belong to the caller). The theorem SqiProps.C19.return_paths_audited pins the
list of unbalanced returns to the audited one, so a new early return that skips the cleanup breaks a proof obligation."""
import os, re, sys
sys.path.insert(0, os.path.dirname(os.path.dirname(os.path.abspath(__file__))))
from vlib import write_if_changed

FILES = ["src/dim2id2iso/ref/dim2id2isox/dim2id2iso.c", "src/id2iso/ref/id2isox/id2iso.c", "src/klpt/ref/klptx/tools.c",
         "src/sqisigndim2/ref/sqisigndim2x/sign.c", "src/sqisigndim2/ref/sqisigndim2x/keygen.c",
         "src/sqisigndim2_heuristic/ref/sqisigndim2_heuristicx/sign.c", "src/sqisigndim2_heuristic/ref/sqisigndim2_heuristicx/keygen.c",
         "src/sqisignhd/ref/sqisignhdx/sign.c", "src/sqisignhd/ref/sqisignhdx/keygen.c"]
CALL = re.compile(r"\b((?:ibz|ibq|quat|id2iso)[A-Za-z0-9_]*?)_(init|finalize)\s*\(\s*&\s*\(?\s*([A-Za-z_][A-Za-z_0-9]*(?:\s*\[[^\]]*\])*(?:\.[A-Za-z_][A-Za-z_0-9]*)*)")
CHAIN_INIT = re.compile(r"\b(?:theta_chain_comput_[A-Za-z_0-9]+|fixed_degree_isogeny|dim2id2iso_ideal_to_isogeny_clapotis)\s*\(\s*&\s*([A-Za-z_][A-Za-z_0-9]*)")
CHAIN_FIN = re.compile(r"\btheta_chain_finalize\s*\(\s*&\s*([A-Za-z_][A-Za-z_0-9]*)")
RET = re.compile(r"\breturn\b")
GUARD = "SQISIGN_SQISIGN2D_WEST_AC24_VERIF"


def strip(s):
    s = re.sub(r"/\*.*?\*/", lambda m: "\n" * m.group(0).count("\n"), s, flags=re.S)
    s = re.sub(r"//[^\n]*", "", s)
    s = re.sub(r'"(?:\\.|[^"\\])*"', '""', s)
    # drop `#ifndef NDEBUG … #endif` (assert-only code, compiled out), regions under the verification-hook guard, and preprocessor lines
    out, nest = [], []          # nest: stack of booleans "this conditional level is skipped"
    for line in s.split("\n"):
        d = re.match(r"\s*#\s*(ifdef|ifndef|if|elif|else|endif)\b(.*)", line)
        if d:
            kw, rest = d.group(1), d.group(2)
            if kw in ("ifdef", "ifndef", "if"):
                nest.append((kw == "ifndef" and "NDEBUG" in rest) or (kw != "ifndef" and GUARD in rest))
            elif kw in ("else", "elif") and nest:
                nest[-1] = False
            elif kw == "endif" and nest:
                nest.pop()
            out.append(""); continue
        out.append("" if (any(nest) or re.match(r"\s*#", line)) else line)
    return "\n".join(out)


def functions(src):
    for m in re.finditer(r"^([A-Za-z_][A-Za-z_0-9]*)\s*\(([^;{}]*)\)\s*\{", src, re.M):
        i = m.end() - 1
        depth, j = 0, i
        while j < len(src):
            if src[j] == "{": depth += 1
            elif src[j] == "}":
                depth -= 1
                if depth == 0: break
            j += 1
        yield m.group(1), src[i:j + 1]


def analyse(body):
    """returns list of (ordinal, [live names]) for the returns of a function body"""
    # block path of every position
    path, stack, nxt = [], [0], 1
    for ch in body:
        if ch == "{":
            stack.append(nxt); nxt += 1
        path.append(tuple(stack))
        if ch == "}":
            stack.pop()
    ev = []
    for m in CALL.finditer(body):
        ev.append((m.start(), m.group(2), re.sub(r"\s+", "", m.group(3)), path[m.start()]))
    # theta chains: a local chain handed to a computing function owns a heap block (`steps`) until theta_chain_finalize
    for m in CHAIN_INIT.finditer(body):
        ev.append((m.start(), "init", "chain:" + m.group(1), path[m.start()]))
    for m in CHAIN_FIN.finditer(body):
        ev.append((m.start(), "finalize", "chain:" + m.group(1), path[m.start()]))
    ev.sort()
    res = []
    for k, r in enumerate(RET.finditer(body)):
        rp = path[r.start()]
        live = {}
        for pos, kind, name, bp in ev:
            if pos < r.start() and rp[:len(bp)] == bp:
                live[name] = live.get(name, 0) + (1 if kind == "init" else -1)
        names = sorted(n for n, c in live.items() if c > 0)
        if names:
            res.append((k, names))
    return res


def scan(repo):
    out = []
    for f in FILES:
        p = os.path.join(repo, f)
        if not os.path.exists(p):
            continue
        src = strip(open(p).read())
        for name, body in functions(src):
            for k, names in analyse(body):
                out.append((f, name, k, ",".join(names)))
    return sorted(set(out))


def generate(repo, outdir):
    items = scan(repo)
    L = ["/- GENERATED by tools/translate/retpaths.py — do not edit. Returns that leave locally initialised GMP-backed objects unfinalised",
         "   on their lexical path: (file, function, ordinal of the `return` in the function, objects). -/",
         "namespace SqiGen.ReturnPaths", "", "def unbalancedReturns : List (String × String × Nat × String) := ["]
    L += ["  (\"%s\", \"%s\", %d, \"%s\")%s" % (a, b, c, d, "," if i + 1 < len(items) else "") for i, (a, b, c, d) in enumerate(items)]
    L += ["]", "", "end SqiGen.ReturnPaths", ""]
    return ["SqiGen/ReturnPaths.lean regenerated (%d unbalanced returns)" % len(items)] if write_if_changed(os.path.join(outdir, "ReturnPaths.lean"), "\n".join(L)) else []


if __name__ == "__main__":
    for it in scan(sys.argv[1] if len(sys.argv) > 1 else os.environ.get("VERIF_REPO", "/repo")):
        print(*it)

#!/usr/bin/env python3
"""Run every translator (tie T): /repo sources -> lean/SqiGen/*.lean. Files are rewritten only when
their content changes, so `lake build` re-checks exactly the theorems whose source text moved."""
import importlib, os, sys
HERE = os.path.dirname(os.path.abspath(__file__))
sys.path.insert(0, HERE)
sys.path.insert(0, os.path.dirname(HERE))
# every tools/translate/*.py with a `generate(repo, outdir)` function is a generator
GENERATORS = sorted(f[:-3] for f in os.listdir(HERE)
                    if f.endswith(".py") and f not in ("run_all.py",) and not f.startswith("_")
                    and "def generate(" in open(os.path.join(HERE, f)).read())


def run(repo=None, out=None):
    import vlib
    repo = repo or vlib.REPO
    out = out or os.path.join(vlib.LEAN, "SqiGen")
    msgs = []
    for g in GENERATORS:
        msgs += importlib.import_module(g).generate(repo, out) or []
    return msgs


if __name__ == "__main__":
    print(run())

"""Translator (tie T) for the *control-flow shape* of key generation and signing (C04, C01, C05):
which call sites use the result of a fallible step, whether the signers guard the strategy-table index,
and how the 2-adic valuations are computed.  Output: lean/SqiGen/SignFlow.lean (plain Bool / Nat defs);
SqiProps/C04Code.lean assembles them into `SqiModel.SignBook.Shape` and proves the theorems that need them.

The extraction is deliberately narrow.  For a call `callee(...)` inside function `fn` of `file` we look at how
the result is consumed, after removing comments, `assert(...)` statements and `#ifndef NDEBUG … #endif` blocks
(the pinned build is -DNDEBUG) and the guarded verification hooks:
  * call inside the condition of `if` / `while`, or in a `return` statement                 -> used
  * `x = callee(...)` (or `int x = ...`): the next textual occurrence of identifier `x` in the function decides:
       `if (` / `while (` / `return` / `&&` / `||` / `!x` context                           -> used
       an assignment `x = ...`, or no further occurrence                                     -> dropped
  * bare statement `callee(...);`                                                            -> dropped
Anything else raises (the translator refusing the source is a check failure by design).
"""
import os, re, sys
sys.path.insert(0, os.path.dirname(os.path.dirname(os.path.abspath(__file__))))
import vlib


class Unsupported(Exception):
    pass


def strip_c(txt):
    txt = re.sub(r"/\*.*?\*/", lambda m: "\n" * m.group(0).count("\n"), txt, flags=re.S)
    txt = re.sub(r"//[^\n]*", "", txt)
    # drop #ifndef NDEBUG ... #endif blocks and the verification hooks (#ifdef <guard> ... #endif, add-only, off in
    # production builds); nested #if inside them is tracked
    out, skip, depth = [], False, 0
    for line in txt.split("\n"):
        s = line.strip()
        if not skip and (re.match(r"#\s*ifndef\s+NDEBUG", s) or re.match(r"#\s*ifdef\s+" + vlib.GUARD, s)):
            skip, depth = True, 1
            out.append("")
            continue
        if skip:
            if re.match(r"#\s*if", s):
                depth += 1
            elif re.match(r"#\s*endif", s):
                depth -= 1
                if depth == 0:
                    skip = False
            out.append("")
            continue
        out.append(line)
    txt = "\n".join(out)
    # drop assert(...) statements (balanced parentheses)
    res, i = [], 0
    for m in re.finditer(r"\bassert\s*\(", txt):
        if m.start() < i:
            continue
        j, d = m.end(), 1
        while d and j < len(txt):
            d += {"(": 1, ")": -1}.get(txt[j], 0)
            j += 1
        res.append(txt[i:m.start()])
        i = j
    res.append(txt[i:])
    return "".join(res)


def function_body(txt, name, path):
    m = re.search(r"^(?:static\s+)?(?:inline\s+)?[A-Za-z_][\w \*]*?\n%s\s*\(" % re.escape(name), txt, re.M)
    if not m:
        raise Unsupported("%s: definition of %s not found" % (path, name))
    i = txt.index("{", m.end())
    d, j = 1, i + 1
    while d:
        if j >= len(txt):
            raise Unsupported("%s: unbalanced braces in %s" % (path, name))
        d += {"{": 1, "}": -1}.get(txt[j], 0)
        j += 1
    return txt[i:j]


def call_end(body, start):
    """index just after the closing parenthesis of the call whose '(' is at/after start"""
    i = body.index("(", start)
    d, j = 1, i + 1
    while d:
        d += {"(": 1, ")": -1}.get(body[j], 0)
        j += 1
    return j


def classify_calls(body, callee, where):
    """list of 'used' / 'dropped' for every call of `callee` in `body`, in textual order"""
    res = []
    for m in re.finditer(r"\b%s\s*\(" % re.escape(callee), body):
        end = call_end(body, m.start())
        # statement start = after previous ; { }
        k = max(body.rfind(";", 0, m.start()), body.rfind("{", 0, m.start()), body.rfind("}", 0, m.start()))
        pre = body[k + 1:m.start()].strip()
        if re.match(r"^(if|while)\s*\(", pre) or pre.startswith("return") or re.search(r"(&&|\|\|)\s*!?$", pre):
            res.append("used")
            continue
        if pre == "":
            res.append("dropped")
            continue
        am = re.match(r"^(?:int\s+)?([A-Za-z_]\w*)\s*=\s*(?:[A-Za-z_]\w*\s*&&\s*)?$", pre)
        if not am:
            raise Unsupported("%s: call of %s in unsupported context %r" % (where, callee, pre[:60]))
        var = am.group(1)
        rest = body[end:]
        nm = re.search(r"\b%s\b" % re.escape(var), rest)
        if not nm:
            res.append("dropped")
            continue
        before = rest[max(0, nm.start() - 12):nm.start()]
        after = rest[nm.end():nm.end() + 6]
        if re.match(r"\s*=(?!=)", after):
            res.append("dropped")
        elif re.search(r"(if|while)\s*\(\s*!?\s*$", before) or re.search(r"return\s+$", before) or \
                re.search(r"(&&|\|\|)\s*!?\s*$", before) or re.search(r"!\s*$", before):
            res.append("used")
        else:
            raise Unsupported("%s: result variable %s of %s consumed in unsupported context %r|%r"
                              % (where, var, callee, before, after))
    return res


def one(res, where, callee, n=1):
    if len(res) != n:
        raise Unsupported("%s: expected %d call(s) of %s, found %d" % (where, n, callee, len(res)))
    return res


def generate(repo, outdir):
    src = os.path.join(repo, "src")

    def load(rel):
        p = os.path.join(src, rel)
        return strip_c(open(p).read()), rel

    flags = {}
    # --- dim2id2iso.c : clapotis uses of fixed_degree_isogeny (live branch number_sum_square == 0 comes first)
    txt, rel = load("dim2id2iso/ref/dim2id2isox/dim2id2iso.c")
    body = function_body(txt, "dim2id2iso_ideal_to_isogeny_clapotis", rel)
    r = classify_calls(body, "fixed_degree_isogeny", rel + ":clapotis")
    if len(r) < 2:
        raise Unsupported(rel + ": expected at least two fixed_degree_isogeny calls in clapotis")
    flags["clapotisFu"], flags["clapotisFv"] = r[0] == "used", r[1] == "used"
    r = one(classify_calls(body, "find_uv", rel + ":clapotis"), rel, "find_uv")
    if r[0] != "used":
        raise Unsupported(rel + ": find_uv result not used in clapotis (model assumes it is)")
    fb = function_body(txt, "fixed_degree_isogeny", rel)
    r = one(classify_calls(fb, "represent_integer_non_diag", rel + ":fixed_degree_isogeny"), rel, "represent_integer_non_diag")
    if r[0] != "used":
        raise Unsupported(rel + ": represent_integer_non_diag result not used in fixed_degree_isogeny")
    # range guard of fixed_degree_isogeny: exactly the three disjuncts, failure exit, before any use of `length`
    nb = re.sub(r"\s+", "", fb)
    want = {"length+2>(int)TORSION_PLUS_EVEN_POWER",
            "(int)TORSION_PLUS_EVEN_POWER-length>=(int)(sizeof(strategies)/sizeof(strategies[0]))",
            "u_bitsize>length"}
    flags["fixedDegGuard"] = False
    for m in re.finditer(r"if\(([^{};]*)\)\{return0;\}", nb):
        if set(m.group(1).split("||")) == want:
            first_use = min(x for x in (nb.find("strategies["), nb.find("ec_dbl_iter("), nb.find("ibz_pow(&two_pow")) if x >= 0)
            flags["fixedDegGuard"] = m.start() < first_use
            break
    exact = ["two_adic_valuation" not in body]
    # --- id2iso.c : sampling_random_ideal_O0
    txt, rel = load("id2iso/ref/id2isox/id2iso.c")
    body = function_body(txt, "sampling_random_ideal_O0", rel)
    r = one(classify_calls(body, "represent_integer", rel + ":sampling_random_ideal_O0"), rel, "represent_integer")
    returns_int = re.search(r"^int\s*\n?\s*sampling_random_ideal_O0", txt, re.M) is not None
    flags["sampleIdeal"] = (r[0] == "used") and returns_int
    # --- the three protocol variants
    for var, d in (("dim2", "sqisigndim2/ref/sqisigndim2x"), ("heur", "sqisigndim2_heuristic/ref/sqisigndim2_heuristicx"),
                   ("hd", "sqisignhd/ref/sqisignhdx")):
        txt, rel = load(d + "/sign.c")
        cbody = function_body(txt, "commit", rel)
        sbody = function_body(txt, "protocols_sign", rel)
        callee = "dim2id2iso_arbitrary_isogeny_evaluation" if var == "dim2" else "fixed_degree_isogeny"
        r = one(classify_calls(cbody, callee, rel + ":commit"), rel, callee)
        r2 = one(classify_calls(sbody, "commit", rel + ":protocols_sign"), rel, "commit")
        flags[var + "Commit"] = r[0] == "used" and r2[0] == "used"
        if var != "hd":
            r = one(classify_calls(sbody, "dim2id2iso_arbitrary_isogeny_evaluation", rel + ":protocols_sign"), rel, "dim2id2iso_arbitrary_isogeny_evaluation")
            flags[var + "Aux"] = r[0] == "used"
            r = one(classify_calls(sbody, "sampling_random_ideal_O0", rel + ":protocols_sign"), rel, "sampling_random_ideal_O0")
            flags[var + "AuxIdeal"] = r[0] == "used"
            # range guard: a comparison of the row expression with the row count of strategies[] that leads to
            # a failure exit, placed before the first use of the length
            g = re.search(r"if\s*\(([^{};]*sizeof\s*\(\s*strategies\s*\)\s*/\s*sizeof\s*\(\s*strategies\s*\[\s*0\s*\]\s*\)[^{};]*)\)\s*\{([^}]*)\}", sbody)
            ok = False
            if g:
                cond, act = g.group(1), g.group(2)
                rowexpr = r"TORSION_PLUS_EVEN_POWER\s*-\s*pow_dim2_deg_resp" + (r"\s*\+\s*2" if var == "heur" else "")
                ok = re.search(rowexpr + r"\s*>=", cond) is not None and re.search(r"pow_dim2_deg_resp\s*<\s*1", cond) is not None \
                    and re.search(r"goto\s+cleanup|return\s+0", act) is not None
                if var == "dim2":
                    ok = ok and re.search(r"backtracking\s*>=\s*SQIsign2D_backtracking_bound", cond) is not None
                    use = sbody.find("strategies[")
                    ok = ok and use > g.start()
            flags[var + "Guard"] = ok
        exact.append("two_adic_valuation" not in sbody)
        txt, rel = load(d + "/keygen.c")
        kbody = function_body(txt, "protocols_keygen", rel)
        r = one(classify_calls(kbody, "dim2id2iso_arbitrary_isogeny_evaluation", rel + ":protocols_keygen"), rel, "dim2id2iso_arbitrary_isogeny_evaluation")
        flags[var + "Keygen"] = r[0] == "used"
    if any(exact) and not all(exact):
        raise Unsupported("two_adic_valuation used at some sites and not at others (model has one flag)")
    flags["exactValuation"] = all(exact)
    # two_adic_valuation's parameter type (the model of tavC assumes `int`)
    t = strip_c(open(os.path.join(src, "common/generic/tools.c")).read())
    m = re.search(r"two_adic_valuation\s*\(\s*([\w ]+?)\s+n\s*\)", t)
    if not m:
        raise Unsupported("tools.c: two_adic_valuation signature not found")
    if m.group(1).strip() != "int":
        raise Unsupported("tools.c: two_adic_valuation no longer takes `int` (model tavC must be revisited)")
    body = function_body(t, "two_adic_valuation", "tools.c")
    norm = re.sub(r"\s+", "", body)
    if norm != "{if(n==0)return0;intcount=0;while((n&1)==0){n>>=1;count++;}returncount;}":
        raise Unsupported("tools.c: body of two_adic_valuation changed (model tavLoop must be revisited)")
    # sample_response retry budgets (constants of the loops)
    order = ["clapotisFu", "clapotisFv", "sampleIdeal", "dim2Commit", "dim2Aux", "dim2AuxIdeal", "dim2Guard", "dim2Keygen",
             "heurCommit", "heurAux", "heurAuxIdeal", "heurGuard", "heurKeygen", "hdCommit", "hdKeygen", "exactValuation", "fixedDegGuard"]
    # ---- loop budgets of the control skeleton (each loop header must have exactly this shape)
    budgets = {}

    def grab(rel, fn, pattern, name):
        t, _ = load(rel)
        b = re.sub(r"\s+", "", function_body(t, fn, rel))
        m = re.findall(pattern, b)
        if len(m) != 1:
            raise Unsupported("%s:%s: loop header for %s not found exactly once" % (rel, fn, name))
        return m[0]
    budgets["findUvAttempts"] = int(grab("dim2id2iso/ref/dim2id2isox/dim2id2iso.c", "dim2id2iso_ideal_to_isogeny_clapotis",
                                         r"while\(!found&\(num_iter_find_uv<(\d+)\)\)", "find_uv"))
    budgets["nonDiagAttempts"] = int(grab("dim2id2iso/ref/dim2id2isox/dim2id2iso.c", "fixed_degree_isogeny",
                                          r"while\(!found&&count<(\d+)\)", "represent_integer_non_diag"))
    budgets["sampleDim2"] = int(grab("sqisigndim2/ref/sqisigndim2x/sign.c", "sample_response", r"while\(!found&&count<(\d+)\)", "sample_response"))
    for var, d in (("Heur", "sqisigndim2_heuristic/ref/sqisigndim2_heuristicx"), ("Hd", "sqisignhd/ref/sqisignhdx")):
        grab(d + "/sign.c", "sample_response", r"while\(!found&&cnt<2\*\(2\*m\+1\)\*\(2\*m\+1\)\*\(2\*m\+1\)\*\(2\*m\+1\)\)", "sample_response")
        m = int(grab(d + "/sign.c", "sample_response", r"intm=(\d+);", "m"))
        budgets["sample" + var] = 2 * (2 * m + 1) ** 4
    for rel, fn in (("klpt/ref/klptx/tools.c", "represent_integer"), ("klpt/ref/klptx/tools.c", "represent_integer_non_diag")):
        grab(rel, fn, r"while\(!found&&cnt<(KLPT_repres_num_gamma_trial)\)", "gamma trials")
    # the keygen retry loops are unbounded do { ... } while (!found): recorded as such
    for d in ("sqisigndim2/ref/sqisigndim2x", "sqisigndim2_heuristic/ref/sqisigndim2_heuristicx", "sqisignhd/ref/sqisignhdx"):
        t, rel = load(d + "/keygen.c")
        b = re.sub(r"\s+", "", function_body(t, "protocols_keygen", rel))
        if flags[{"sqisigndim2/ref/sqisigndim2x": "dim2", "sqisigndim2_heuristic/ref/sqisigndim2_heuristicx": "heur", "sqisignhd/ref/sqisignhdx": "hd"}[d] + "Keygen"] \
                and not re.search(r"\}while\(!found\);", b):
            raise Unsupported(rel + ": keygen result used but not through the do-while retry the model assumes")
    lines = ["/- GENERATED by tools/translate/signflow.py from /repo — do not edit.",
             "   Control-flow shape of keygen / sign: which call sites use the result of a fallible step. -/",
             "namespace SqiGen.SignFlow"]
    for k in order:
        lines.append("def %s : Bool := %s" % (k, "true" if flags[k] else "false"))
    for k in ("findUvAttempts", "nonDiagAttempts", "sampleDim2", "sampleHeur", "sampleHd"):
        lines.append("def %s : Nat := %d" % (k, budgets[k]))
    lines.append("end SqiGen.SignFlow")
    ch = vlib.write_if_changed(os.path.join(outdir, "SignFlow.lean"), "\n".join(lines) + "\n")
    return ["SignFlow.lean %s (%s)" % ("rewritten" if ch else "unchanged",
                                       ",".join(k for k in order if not flags[k]) or "all sites checked")]


if __name__ == "__main__":
    print(generate(vlib.REPO, os.path.join(vlib.LEAN, "SqiGen")))

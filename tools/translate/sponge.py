"""Translator T, sponge control code: src/common/generic/fips202.c -> lean/SqiGen/Sponge.lean.

Re-extracts on every run the bodies of `load64`, `keccak_absorb`, `keccak_inc_absorb`, `keccak_inc_finalize`
(structured code: `for` / `while` loops with run-time bounds over scalars and arrays) into Lean definitions over the
combinators of lean/SqiModel/SpongeProg.lean.  Each function gets a record `V` of its mutable variables; every statement
is a function `V → Option V`, sequenced with `bind`; every loop is `loopO cond body fuel`.

Accepted subset (anything else raises TranslateError):
  * declarations `size_t i;`, `uint8_t t[200];`, `uint64_t r = 0;`
  * `for (i = 0; i < E; i++ | ++i) S` and `for (size_t i = 0; …)`, `while (E1 >= E2) S`  (conditions: <, >=, >)
  * assignments to a scalar (=, +=, -=), to `s_inc[25]` (the byte counter; literal index), to a lane `a[E]` of a
    `uint64_t *` parameter (=, ^=), to a byte `t[E]` of the local byte array (=, |=), to the accumulator of load64 (|=);
    pointer increments `m += E`; the call `KeccakF1600_StatePermute(a)`; `return r;`
  * scalar expressions (typed ℕ): + - * / >> & with literals, scalars, `s_inc[25]`, casts (size_t) (uint32_t) ignored
  * lane expressions (typed UInt64): `(uint64_t)BYTE << E`, `load64(p + E)`, `0`
  * byte expressions: `m[E]`, `t[E]`, scalar byte parameters, literals, `|`.
"""
import os, re, sys

sys.path.insert(0, os.path.dirname(os.path.dirname(os.path.abspath(__file__))))
from vlib import write_if_changed
from keccak import TranslateError, strip_c_comments, find_function

TOK = re.compile(r"\s*(0[xX][0-9a-fA-F]+|\d+|[A-Za-z_]\w*|<<|>>|>=|<=|==|\+\+|\+=|-=|\^=|\|=|[(){}\[\]^&|~+\-*/=,;<>])")


def tokenize(s, where):
    out, i = [], 0
    s = s.strip()
    while i < len(s):
        m = TOK.match(s, i)
        if not m:
            raise TranslateError("%s: cannot tokenize %r" % (where, s[i:i + 40]))
        out.append(m.group(1)); i = m.end()
    return out


class Fn:
    def __init__(self, name, params, body):
        """params: list of (cname, kind) with kind in nat | byte | lanes | counterlanes | bytes"""
        self.name, self.t, self.i = name, tokenize(body, name), 0
        self.kind = {}            # C identifier -> kind
        self.fields = []          # (lean field, lean type)
        for n, k in params:
            self.declare(n, k)
        self.ret = None
        self.defs = []      # named loop bodies: (lean name, term)

    def declare(self, n, k):
        if n in self.kind:
            if self.kind[n] != k:
                raise TranslateError("%s: %s redeclared with another type" % (self.name, n))
            return
        self.kind[n] = k
        ty = {"nat": "Nat", "byte": "UInt8", "lanes": "State", "counterlanes": "State", "bytes": "List UInt8",
              "bytearr": "List UInt8", "u64": "UInt64", "out": "List UInt8"}[k]
        self.fields.append((n, ty))
        if k == "counterlanes":
            self.fields.append(("pos", "Nat"))
        if k == "out":
            self.fields.append((n + "off", "Nat"))

    # ------------- token helpers
    def peek(self, k=0):
        return self.t[self.i + k] if self.i + k < len(self.t) else None

    def eat(self, x=None):
        tok = self.peek()
        if tok is None or (x is not None and tok != x):
            raise TranslateError("%s: expected %r, got %r (token %d)" % (self.name, x, tok, self.i))
        self.i += 1
        return tok

    # ------------- expressions
    def skip_cast(self):
        while self.peek() == "(" and self.peek(1) in ("size_t", "uint32_t", "uint64_t", "uint8_t") and self.peek(2) == ")":
            self.i += 3

    def nat(self):      # & level
        l = self.nat_shift()
        while self.peek() == "&":
            self.eat(); r = self.nat_shift(); l = "(%s &&& %s)" % (l, r)
        return l

    def nat_shift(self):
        l = self.nat_add()
        while self.peek() in (">>", "<<"):
            o = self.eat(); r = self.nat_add()
            l = "(%s %s %s)" % (l, ">>>" if o == ">>" else "<<<", r)
        return l

    def nat_add(self):
        l = self.nat_mul()
        while self.peek() in ("+", "-"):
            o = self.eat(); r = self.nat_mul(); l = "(%s %s %s)" % (l, o, r)
        return l

    def nat_mul(self):
        l = self.nat_atom()
        while self.peek() in ("*", "/"):
            o = self.eat(); r = self.nat_atom(); l = "(%s %s %s)" % (l, o, r)
        return l

    def nat_atom(self):
        self.skip_cast()
        tok = self.eat()
        if tok == "(":
            e = self.nat(); self.eat(")"); return e
        if re.match(r"0[xX]|\d", tok):
            return "%d" % int(tok, 0)
        k = self.kind.get(tok)
        if k == "nat":
            return "v.%s" % tok
        if k == "counterlanes" and self.peek() == "[" and self.peek(1) == "25" and self.peek(2) == "]":
            self.i += 3
            return "v.pos"
        raise TranslateError("%s: %r is not a scalar (natural number) expression" % (self.name, tok))

    def byte(self):
        l = self.byte_atom()
        while self.peek() == "|":
            self.eat(); r = self.byte_atom(); l = "(%s ||| %s)" % (l, r)
        return l

    def byte_atom(self):
        self.skip_cast()
        tok = self.eat()
        if tok == "(":
            e = self.byte(); self.eat(")"); return e
        if re.match(r"0[xX]|\d", tok):
            v = int(tok, 0)
            if v > 255:
                raise TranslateError("%s: byte literal %d" % (self.name, v))
            return "(%d : UInt8)" % v
        k = self.kind.get(tok)
        if k == "byte":
            return "v.%s" % tok
        if k == "u64" and self.peek() == ">>":
            self.eat(">>"); n = self.nat_add()
            return "(v.%s >>> (%s).toUInt64).toUInt8" % (tok, n)
        if k in ("lanes", "counterlanes") and self.peek() == "[":
            self.eat("["); idx = self.nat(); self.eat("]"); self.eat(">>"); n = self.nat_add()
            return "(laneAt v.%s %s >>> (%s).toUInt64).toUInt8" % (tok, idx, n)
        if k in ("bytes", "bytearr") and self.peek() == "[":
            self.eat("["); e = self.nat(); self.eat("]")
            return "(v.%s.getD %s 0)" % (tok, e)
        raise TranslateError("%s: %r is not a byte expression" % (self.name, tok))

    def lane(self):
        """(uint64_t)BYTE << NAT | load64(ptr + NAT) | 0 | u64 accumulator"""
        if self.peek() == "load64":
            self.eat(); self.eat("(")
            p = self.eat()
            if self.kind.get(p) not in ("bytes", "bytearr"):
                raise TranslateError("%s: load64 of %r" % (self.name, p))
            off = "0"
            if self.peek() == "+":
                self.eat(); off = self.nat()
            self.eat(")")
            return "(load64 (v.%s.drop %s))" % (p, off)
        if self.peek() == "0" and self.peek(1) == ";":
            self.eat(); return "(0 : UInt64)"
        if not (self.peek() == "(" and self.peek(1) == "uint64_t" and self.peek(2) == ")"):
            raise TranslateError("%s: lane expression must start with (uint64_t), got %r" % (self.name, self.peek()))
        self.i += 3
        b = self.byte_atom()
        self.eat("<<")
        n = self.nat_add()
        return "(%s.toUInt64 <<< (%s).toUInt64)" % (b, n)

    def cond(self):
        c = self.cond1()
        while self.peek() == "&" and self.peek(1) == "&":
            self.i += 2
            c = "(%s && %s)" % (c, self.cond1())
        return c

    def cond1(self):
        a = self.nat_shift(); o = self.eat()
        if o not in (">=", "<", ">", "<="):
            raise TranslateError("%s: comparison %r not in subset" % (self.name, o))
        b = self.nat_shift()
        return "decide (%s %s %s)" % (a, {">=": "≥", "<": "<", ">": ">", "<=": "≤"}[o], b)

    # ------------- statements: each returns a Lean term of type V → Option V
    def block_or_stmt(self):
        if self.peek() == "{":
            self.eat("{"); sts = []
            while self.peek() != "}":
                s = self.stmt()
                if s:
                    sts.append(s)
            self.eat("}")
            return self.seq(sts)
        return self.stmt()

    def seq(self, sts):
        if not sts:
            return "(fun v => some v)"
        out = sts[0]
        for s in sts[1:]:
            out = "(fun v => (%s v).bind %s)" % (out, s)
        return out

    def upd(self, field, e):
        return "(fun v => some { v with %s := %s })" % (field, e)

    def stmt(self):
        tok = self.peek()
        if tok in ("size_t", "uint64_t", "uint8_t"):
            self.eat(); n = self.eat()
            if self.peek() == "[":
                self.eat("["); size = int(self.eat(), 0); self.eat("]"); self.eat(";")
                if tok != "uint8_t" or size != 200:
                    raise TranslateError("%s: only `uint8_t t[200]` local arrays" % self.name)
                self.declare(n, "bytearr"); return None
            if self.peek() == "=":
                self.eat(); init = self.eat(); self.eat(";")
                if tok != "uint64_t" or int(init, 0) != 0:
                    raise TranslateError("%s: only `uint64_t x = 0;` initialised declarations" % self.name)
                self.declare(n, "u64")
                return self.upd(n, "(0 : UInt64)")
            self.eat(";")
            self.declare(n, "nat" if tok == "size_t" else None)
            return None
        if tok == "for":
            self.eat(); self.eat("(")
            if self.peek() == "size_t":
                self.eat(); self.declare(self.peek(), "nat")
            iv = self.eat()
            if self.kind.get(iv) != "nat":
                raise TranslateError("%s: loop variable %r" % (self.name, iv))
            self.eat("="); z = self.eat(); self.eat(";")
            if int(z, 0) != 0:
                raise TranslateError("%s: for loops must start at 0" % self.name)
            c = self.cond(); self.eat(";")
            if self.peek() == "++":
                self.eat(); x = self.eat()
            else:
                x = self.eat(); self.eat("++")
            if x != iv:
                raise TranslateError("%s: for increment is not on %s" % (self.name, iv))
            self.eat(")")
            body = self.block_or_stmt()
            inc = self.upd(iv, "v.%s + 1" % iv)
            bname = "%s.body%d" % (self.name, len(self.defs) + 1)
            self.defs.append((bname, "(fun v => (%s v).bind %s)" % (body, inc)))
            return "(fun v => loopO (fun v => %s) (%s F fuel) fuel { v with %s := 0 })" % (c, bname, iv)
        if tok == "while":
            self.eat(); self.eat("("); c = self.cond(); self.eat(")")
            body = self.block_or_stmt()
            bname = "%s.body%d" % (self.name, len(self.defs) + 1)
            self.defs.append((bname, body))
            return "(fun v => loopO (fun v => %s) (%s F fuel) fuel v)" % (c, bname)
        if tok == "return":
            self.eat(); self.ret = self.eat(); self.eat(";"); return None
        if tok == "store64":
            self.eat(); self.eat("("); o = self.eat()
            if self.kind.get(o) != "out":
                raise TranslateError("%s: store64 destination %r" % (self.name, o))
            off = "0"
            if self.peek() == "+":
                self.eat(); off = self.nat()
            self.eat(","); a = self.eat()
            if self.kind.get(a) not in ("lanes", "counterlanes"):
                raise TranslateError("%s: store64 source %r" % (self.name, a))
            self.eat("["); idx = self.nat(); self.eat("]"); self.eat(")"); self.eat(";")
            return self.upd(o, "store64At v.%s (v.%soff + %s) (laneAt v.%s %s)" % (o, o, off, a, idx))
        if tok == "KeccakF1600_StatePermute":
            self.eat(); self.eat("("); a = self.eat(); self.eat(")"); self.eat(";")
            if self.kind.get(a) not in ("lanes", "counterlanes"):
                raise TranslateError("%s: permutation of %r" % (self.name, a))
            return self.upd(a, "F v.%s" % a)
        # assignments
        name = self.eat()
        k = self.kind.get(name)
        if k is None:
            raise TranslateError("%s: statement starting with %r not in subset" % (self.name, name))
        if self.peek() == "[":
            self.eat("[")
            if k == "counterlanes" and self.peek() == "25" and self.peek(1) == "]":
                self.i += 2
                op = self.eat(); e = self.nat(); self.eat(";")
                if op == "=":
                    return self.upd("pos", e)
                if op == "+=":
                    return self.upd("pos", "v.pos + %s" % e)
                if op == "-=":
                    return self.upd("pos", "v.pos - %s" % e)
                raise TranslateError("%s: s_inc[25] %s" % (self.name, op))
            idx = self.nat(); self.eat("]")
            op = self.eat()
            if k in ("lanes", "counterlanes"):
                e = self.lane(); self.eat(";")
                if op == "^=":
                    return self.upd(name, "xorLaneAt v.%s %s %s" % (name, idx, e))
                if op == "=":
                    return self.upd(name, "setLaneAt v.%s %s %s" % (name, idx, e))
                raise TranslateError("%s: lane assignment operator %s" % (self.name, op))
            if k == "out":
                e = self.byte(); self.eat(";")
                if op == "=":
                    return self.upd(name, "v.%s.set (v.%soff + %s) %s" % (name, name, idx, e))
                raise TranslateError("%s: output byte assignment operator %s" % (self.name, op))
            if k == "bytearr":
                e = self.byte(); self.eat(";")
                if op == "=":
                    return self.upd(name, "v.%s.set %s %s" % (name, idx, e))
                if op == "|=":
                    return self.upd(name, "v.%s.set %s ((v.%s.getD %s 0) ||| %s)" % (name, idx, name, idx, e))
                raise TranslateError("%s: byte assignment operator %s" % (self.name, op))
            raise TranslateError("%s: indexed assignment to %r" % (self.name, name))
        op = self.eat()
        if k == "nat" and op == "-" and self.peek() == "-":
            self.eat(); self.eat(";")
            return self.upd(name, "v.%s - 1" % name)
        if k == "out" and op == "+=":
            e = self.nat(); self.eat(";")
            return self.upd(name + "off", "v.%soff + %s" % (name, e))
        if k == "nat":
            e = self.nat(); self.eat(";")
            if op == "=":
                return self.upd(name, e)
            if op == "+=":
                return self.upd(name, "v.%s + %s" % (name, e))
            if op == "-=":
                return self.upd(name, "v.%s - %s" % (name, e))
        if k == "bytes" and op == "+=":
            e = self.nat(); self.eat(";")
            return self.upd(name, "v.%s.drop %s" % (name, e))
        if k == "u64" and op == "|=":
            e = self.lane(); self.eat(";")
            return self.upd(name, "v.%s ||| %s" % (name, e))
        raise TranslateError("%s: assignment `%s %s` not in subset" % (self.name, name, op))


FUNCS = [
    ("load64", r"const\s+uint8_t\s*\*\s*x", [("x", "bytes")], False),
    ("store64", r"uint8_t\s*\*\s*x\s*,\s*uint64_t\s+u", [("x", "out"), ("u", "u64")], False),
    ("keccak_squeezeblocks", r"uint8_t\s*\*\s*h\s*,\s*size_t\s+nblocks\s*,\s*uint64_t\s*\*\s*s\s*,\s*uint32_t\s+r",
     [("h", "out"), ("nblocks", "nat"), ("s", "lanes"), ("r", "nat")], True),
    ("keccak_inc_squeeze", r"uint8_t\s*\*\s*h\s*,\s*size_t\s+outlen\s*,\s*uint64_t\s*\*\s*s_inc\s*,\s*uint32_t\s+r",
     [("h", "out"), ("outlen", "nat"), ("s_inc", "counterlanes"), ("r", "nat")], True),
    ("keccak_inc_absorb", r"uint64_t\s*\*\s*s_inc\s*,\s*uint32_t\s+r\s*,\s*const\s+uint8_t\s*\*\s*m\s*,\s*size_t\s+mlen",
     [("s_inc", "counterlanes"), ("r", "nat"), ("m", "bytes"), ("mlen", "nat")], True),
    ("keccak_inc_finalize", r"uint64_t\s*\*\s*s_inc\s*,\s*uint32_t\s+r\s*,\s*uint8_t\s+p",
     [("s_inc", "counterlanes"), ("r", "nat"), ("p", "byte")], False),
    ("keccak_absorb", r"uint64_t\s*\*\s*s\s*,\s*uint32_t\s+r\s*,\s*const\s+uint8_t\s*\*\s*m\s*,\s*size_t\s+mlen\s*,\s*uint8_t\s+p",
     [("s", "lanes"), ("r", "nat"), ("m", "bytes"), ("mlen", "nat"), ("p", "byte")], True),
]


def extract(repo):
    src = strip_c_comments(open(os.path.join(repo, "src/common/generic/fips202.c")).read())
    out = []
    for name, argpat, params, usesF in FUNCS:
        args, body = find_function(src, name)
        if not re.match(r"\s*" + argpat + r"\s*$", args):
            raise TranslateError("%s: unexpected parameter list %r" % (name, args))
        f = Fn(name, params, body)
        sts = []
        while f.peek() is not None:
            s = f.stmt()
            if s:
                sts.append(s)
        out.append((name, f, f.seq(sts), usesF))
    return out


def emit(fs):
    L = ["/- GENERATED by tools/translate/sponge.py from src/common/generic/fips202.c — do not edit.",
         "   The sponge control code as structured programs over SqiModel.SpongeProg (see that file for the conventions). -/",
         "import SqiModel.SpongeProg", "import SqiModel.Sponge", "namespace SqiGen.Sponge",
         "open SqiModel.Fips202 SqiModel.SpongeProg", ""]
    for name, f, body, usesF in fs:
        L.append("structure %s.V where" % name)
        for n, ty in f.fields:
            L.append("  %s : %s" % (n, ty))
        L.append("")
        for bname, bterm in f.defs:
            L.append("/-- body of loop %s of `%s` (inner loops are numbered first) -/" % (bname.split("body")[-1], name))
            L.append("def %s (F : State → State) (fuel : Nat) : %s.V → Option %s.V :=" % (bname, name, name))
            L.append("  " + bterm)
        if name == "load64":
            L.append("/-- `load64` (the name `load64` in later functions refers to this definition) -/")
            L.append("def load64.run (F : State → State) (fuel : Nat) : load64.V → Option load64.V :=")
            L.append("  " + body)
            L.append("def load64 (x : List UInt8) : UInt64 :=")
            L.append("  match load64.run id 9 { x := x, r := 0, i := 0 } with")
            L.append("  | some v => v.%s" % f.ret)
            L.append("  | none => 0")
        elif name == "store64":
            L.append("/-- `store64` -/")
            L.append("def store64.run (F : State → State) (fuel : Nat) : store64.V → Option store64.V :=")
            L.append("  " + body)
            L.append("/-- a call `store64(buf + off, u)` -/")
            L.append("def store64At (buf : List UInt8) (off : Nat) (u : UInt64) : List UInt8 :=")
            L.append("  match store64.run id 9 { x := buf, xoff := off, u := u, i := 0 } with")
            L.append("  | some v => v.x")
            L.append("  | none => buf")
        else:
            L.append("/-- `%s`: F = KeccakF1600_StatePermute, fuel bounds every loop -/" % name)
            L.append("def %s.run (F : State → State) (fuel : Nat) : %s.V → Option %s.V :=" % (name, name, name))
            L.append("  " + body)
        L.append("")
    L += ["end SqiGen.Sponge", ""]
    return "\n".join(L)


def generate(repo, outdir):
    return ["Sponge.lean regenerated"] if write_if_changed(os.path.join(outdir, "Sponge.lean"), emit(extract(repo))) else []


if __name__ == "__main__":
    import vlib
    print(generate(vlib.REPO, os.path.join(vlib.LEAN, "SqiGen")))

"""Translator T, sponge wrappers: src/common/generic/fips202.c -> lean/SqiGen/SpongeWrap.lean.

Re-extracts on every run
  * `keccak_inc_init` as a structured program (same subset / combinators as tools/translate/sponge.py), and
  * the one-call wrappers `shake128/256_inc_init`, `_inc_absorb`, `_inc_finalize`, `_inc_squeeze`: the body must be exactly
    one call `callee(args);` of a function translated by sponge.py (for `_inc_init`: preceded by exactly
    `state->ctx = malloc(PQC_SHAKEINCCTX_BYTES); if (state->ctx == NULL) { exit(111); }` with the macro equal to 26 lanes;
    the fresh allocation is modelled as arbitrary contents).  Each actual argument is `state->ctx` (the 25 lanes + counter),
    a parameter of the wrapper, a literal, or a `#define`d integer macro (resolved from the C text); arguments are matched
    positionally against the callee's parameter list, with a kind check.  The emitted definition is the callee's generated
    program applied to the record built from the arguments; the callee's uninitialised locals become extra parameters.
  * likewise `shake128/256_absorb` (25-lane allocation `PQC_SHAKECTX_BYTES`, then `keccak_absorb`) and `shake128/256_squeezeblocks`;
  * the one-shot `shake128` / `shake256`: the statement sequence must match the template ONESHOT, whose holes are the rate macros, the
    block count of the tail call and the copy loop (translated by sponge.py's statement translator); `shake*_ctx_release` must be
    `free(state->ctx);`.  Emitted as `shakeN.run` in the Option monad over the generated wrapper programs.
  * the exported `SHAKE128` / `SHAKE256`: exactly `shakeN(a, b, c, d); return 0;`, arguments bound positionally.
  * `shake128/256[_inc]_ctx_clone` (malloc + memcpy of 25 / 26 lanes) and `_ctx_release` (`free(state->ctx);`, shape-checked).
Anything else raises TranslateError.
"""
import os, re, sys

sys.path.insert(0, os.path.dirname(os.path.dirname(os.path.abspath(__file__))))
from vlib import write_if_changed
from keccak import TranslateError, strip_c_comments, find_function
import sponge

CTX = r"shake(?:128|256)incctx\s*\*\s*state"
CTX25 = r"shake(?:128|256)ctx\s*\*\s*state"
WRAPPERS = []
for _b in ("128", "256"):
    WRAPPERS += [
        ("shake%s_inc_init" % _b, CTX, [("state", "ctx")], "keccak_inc_init", "PQC_SHAKEINCCTX_BYTES"),
        ("shake%s_inc_absorb" % _b, CTX + r"\s*,\s*const\s+uint8_t\s*\*\s*input\s*,\s*size_t\s+inlen",
         [("state", "ctx"), ("input", "bytes"), ("inlen", "nat")], "keccak_inc_absorb", None),
        ("shake%s_inc_finalize" % _b, CTX, [("state", "ctx")], "keccak_inc_finalize", None),
        ("shake%s_inc_squeeze" % _b, r"uint8_t\s*\*\s*output\s*,\s*size_t\s+outlen\s*,\s*" + CTX,
         [("output", "out"), ("outlen", "nat"), ("state", "ctx")], "keccak_inc_squeeze", None),
        # the non-incremental context (25 lanes, no byte counter): building blocks of the one-shot shake128/256
        ("shake%s_absorb" % _b, CTX25 + r"\s*,\s*const\s+uint8_t\s*\*\s*input\s*,\s*size_t\s+inlen",
         [("state", "ctx25"), ("input", "bytes"), ("inlen", "nat")], "keccak_absorb", "PQC_SHAKECTX_BYTES"),
        ("shake%s_squeezeblocks" % _b, r"uint8_t\s*\*\s*output\s*,\s*size_t\s+nblocks\s*,\s*" + CTX25,
         [("output", "out"), ("nblocks", "nat"), ("state", "ctx25")], "keccak_squeezeblocks", None),
    ]

MALLOC = "state - > ctx = malloc ( %s ) ; if ( state - > ctx == NULL ) { exit ( 111 ) ; }"
LANES = {"PQC_SHAKEINCCTX_BYTES": 26, "PQC_SHAKECTX_BYTES": 25}
LEANTY = {"nat": "Nat", "bytes": "List UInt8"}


def macros(src):
    out = {}
    for m in re.finditer(r"^[ \t]*#[ \t]*define[ \t]+(\w+)[ \t]+(0[xX][0-9a-fA-F]+|\d+)[ \t]*$", src, re.M):
        if m.group(1) in out:
            raise TranslateError("macro %s defined twice" % m.group(1))
        out[m.group(1)] = int(m.group(2), 0)
    return out


def extract_init(src):
    args, body = find_function(src, "keccak_inc_init")
    if not re.match(r"\s*uint64_t\s*\*\s*s_inc\s*$", args):
        raise TranslateError("keccak_inc_init: unexpected parameter list %r" % args)
    f = sponge.Fn("keccak_inc_init", [("s_inc", "counterlanes")], body)
    sts = []
    while f.peek() is not None:
        s = f.stmt()
        if s:
            sts.append(s)
    return f, f.seq(sts)


def split_args(toks, where):
    args, cur, depth = [], [], 0
    for t in toks:
        if t == "(":
            depth += 1
        if t == ")":
            depth -= 1
        if t == "," and depth == 0:
            args.append(cur); cur = []
        else:
            cur.append(t)
    if depth != 0:
        raise TranslateError("%s: unbalanced call" % where)
    return args + [cur]


def wrapper(src, mac, callees, name, argpat, params, callee, has_malloc):
    args, body = find_function(src, name)
    if not re.match(r"\s*" + argpat + r"\s*$", args):
        raise TranslateError("%s: unexpected parameter list %r" % (name, args))
    t = sponge.tokenize(body, name)
    if has_malloc:
        pre = (MALLOC % has_malloc).split()
        if t[:len(pre)] != pre:
            raise TranslateError("%s: allocation prelude not in subset" % name)
        if not re.search(r"#define\s+%s\s+\(sizeof\(uint64_t\)\s*\*\s*%d\)" % (has_malloc, LANES[has_malloc]), src):
            raise TranslateError("%s is not %d lanes" % (has_malloc, LANES[has_malloc]))
        t = t[len(pre):]
    if len(t) < 4 or t[0] != callee or t[1] != "(" or t[-2:] != [")", ";"]:
        raise TranslateError("%s: body is not the single call %s(...);" % (name, callee))
    actual = split_args(t[2:-2], name)
    cparams, cfields = callees[callee]
    if len(actual) != len(cparams):
        raise TranslateError("%s: %d arguments for %s" % (name, len(actual), callee))
    pk = dict(params)
    bind = {}
    for a, (cn, ck) in zip(actual, cparams):
        if a == ["state", "-", ">", "ctx"]:
            if (pk["state"], ck) not in (("ctx", "counterlanes"), ("ctx25", "lanes")):
                raise TranslateError("%s: state->ctx passed as %s" % (name, cn))
            bind[cn] = "ctx"
            if ck == "counterlanes":
                bind["pos"] = "ctxpos"
        elif len(a) == 1 and a[0] in pk and pk[a[0]] not in ("ctx", "ctx25"):
            if pk[a[0]] != ck:
                raise TranslateError("%s: %s passed as %s (%s)" % (name, a[0], cn, ck))
            bind[cn] = a[0]
            if ck == "out":
                bind[cn + "off"] = a[0] + "off"
        elif len(a) == 1 and (a[0] in mac or re.match(r"0[xX][0-9a-fA-F]+$|\d+$", a[0])):
            v = mac[a[0]] if a[0] in mac else int(a[0], 0)
            if ck == "nat":
                bind[cn] = "%d" % v
            elif ck == "byte" and v < 256:
                bind[cn] = "(%d : UInt8)" % v
            else:
                raise TranslateError("%s: constant %r passed as %s (%s)" % (name, a[0], cn, ck))
        else:
            raise TranslateError("%s: argument %r not in subset" % (name, " ".join(a)))
    lp, fields = [], []
    for n, k in params:
        if k == "ctx":
            lp += ["(ctx : State)", "(ctxpos : Nat)"]
        elif k == "ctx25":
            lp.append("(ctx : State)")
        elif k == "out":
            lp += ["(%s : List UInt8)" % n, "(%soff : Nat)" % n]
        else:
            lp.append("(%s : %s)" % (n, LEANTY[k]))
    for fn, fty in cfields:
        if fn in bind:
            fields.append("%s := %s" % (fn, bind[fn]))
        else:   # uninitialised local of the callee
            lp.append("(%s0 : %s)" % (fn, fty))
            fields.append("%s := %s0" % (fn, fn))
    return ["/-- `%s`: %sthe single call `%s(%s)` -/" % (name, "fresh allocation (arbitrary contents), then " if has_malloc else "",
                                                       callee, ", ".join(" ".join(a) for a in actual).replace("- >", "->")),
            "def %s.run (F : State → State) (fuel : Nat) %s : Option %s.V :=" % (name, " ".join(lp), callee),
            "  %s.run F fuel { %s }" % (callee, ", ".join(fields)), ""]


ONESHOT = (r"size_t nblocks = outlen / (?P<m1>\w+) ; uint8_t t \[ (?P<m2>\w+) \] ; shakeBctx s ; "
           r"shakeB_absorb \( & s , input , inlen \) ; shakeB_squeezeblocks \( output , nblocks , & s \) ; "
           r"output \+= nblocks \* (?P<m3>\w+) ; outlen -= nblocks \* (?P<m4>\w+) ; "
           r"if \( outlen \) \{ shakeB_squeezeblocks \( t , (?P<n1>\w+) , & s \) ; (?P<loop>for \( .* \}) \} "
           r"shakeB_ctx_release \( & s \) ;$")


def oneshot(src, mac, b):
    """the one-shot `shake128` / `shake256`: fixed statement sequence (refused otherwise) with the rate macros / literals
    as holes; the copy loop goes through the statement translator of sponge.py"""
    name = "shake" + b
    args, body = find_function(src, name)
    if not re.match(r"\s*uint8_t\s*\*\s*output\s*,\s*size_t\s+outlen\s*,\s*const\s+uint8_t\s*\*\s*input\s*,\s*size_t\s+inlen\s*$", args):
        raise TranslateError("%s: unexpected parameter list %r" % (name, args))
    m = re.match(ONESHOT.replace("shakeB", name), " ".join(sponge.tokenize(body, name)))
    if not m:
        raise TranslateError("%s: statement sequence not in subset" % name)
    _, rel = find_function(src, name + "_ctx_release")
    if sponge.tokenize(rel, name) != "free ( state - > ctx ) ;".split():
        raise TranslateError("%s_ctx_release is not free(state->ctx)" % name)

    def val(k):
        x = m.group(k)
        if x in mac:
            return mac[x]
        if re.match(r"0[xX][0-9a-fA-F]+$|\d+$", x):
            return int(x, 0)
        raise TranslateError("%s: %r is not a constant" % (name, x))
    f = sponge.Fn(name, [("output", "out"), ("outlen", "nat"), ("t", "bytearr")], m.group("loop"))
    loop = f.stmt()
    if f.peek() is not None or len(f.defs) != 1:
        raise TranslateError("%s: copy loop not in subset" % name)
    L = ["structure %s.V where" % name] + ["  %s : %s" % nt for nt in f.fields] + [""]
    L += ["def %s (F : State → State) (fuel : Nat) : %s.V → Option %s.V :=" % (f.defs[0][0], name, name), "  " + f.defs[0][1]]
    L += ["/-- size of the stack block `t` of `%s` -/" % name, "def %s.tlen : Nat := %d" % (name, val("m2")),
          "/-- the one-shot `%s(output, outlen, input, inlen)`; `s0`, `t0`, `ta`, `ia`, `iq1`, `iq2`, `ic`: uninitialised memory -/" % name,
          "def %s.run (F : State → State) (fuel : Nat) (output : List UInt8) (outputoff outlen : Nat) (input : List UInt8)" % name,
          "    (inlen : Nat) (s0 : State) (t0 : List UInt8) (ia : Nat) (ta : List UInt8) (iq1 iq2 ic : Nat) : Option (List UInt8) :=",
          "  let nblocks := outlen / %d" % val("m1"),
          "  (%s_absorb.run F fuel s0 input inlen ia ta).bind fun a =>" % name,
          "  (%s_squeezeblocks.run F fuel output outputoff nblocks a.s iq1).bind fun q =>" % name,
          "  let outputoff := outputoff + nblocks * %d" % val("m3"),
          "  let outlen := outlen - nblocks * %d" % val("m4"),
          "  if outlen ≠ 0 then",
          "    (%s_squeezeblocks.run F fuel t0 0 %d q.s iq2).bind fun q2 =>" % (name, val("n1")),
          "    (%s ({ output := q.h, outputoff := outputoff, outlen := outlen, t := q2.h, i := ic } : %s.V)).bind fun c =>" % (loop, name),
          "    some c.output",
          "  else some q.h", ""]
    return L


def upper(src, b):
    """the exported `SHAKE128` / `SHAKE256`: body must be `shakeN(a, b, c, d); return 0;`; the actual arguments are bound
    positionally (kind-checked) to the one-shot's parameters"""
    name, callee = "SHAKE" + b, "shake" + b
    args, body = find_function(src, name)
    m = re.match(r"\s*unsigned\s+char\s*\*\s*(\w+)\s*,\s*size_t\s+(\w+)\s*,\s*const\s+unsigned\s+char\s*\*\s*(\w+)\s*,\s*size_t\s+(\w+)\s*$", args)
    if not m or len(set(m.groups())) != 4:
        raise TranslateError("%s: unexpected parameter list %r" % (name, args))
    o, ol, i, il = m.groups()
    t = sponge.tokenize(body, name)
    if len(t) != 14 or t[0] != callee or t[1] != "(" or [t[3], t[5], t[7]] != [","] * 3 or t[9:] != [")", ";", "return", "0", ";"]:
        raise TranslateError("%s: body is not `%s(a, b, c, d); return 0;`" % (name, callee))
    a = [t[2], t[4], t[6], t[8]]
    kinds = {o: "out", ol: "nat", i: "bytes", il: "nat"}
    if [kinds.get(x) for x in a] != ["out", "nat", "bytes", "nat"]:
        raise TranslateError("%s: arguments %r do not fit %s(uint8_t *, size_t, const uint8_t *, size_t)" % (name, a, callee))
    return ["/-- the exported `%s`: the single call `%s(%s)`, returns 0 -/" % (name, callee, ", ".join(a)),
            "def %s.run (F : State → State) (fuel : Nat) (%s : List UInt8) (%soff %s : Nat) (%s : List UInt8) (%s : Nat)" % (name, o, o, ol, i, il),
            "    (s0 : State) (t0 : List UInt8) (ia : Nat) (ta : List UInt8) (iq1 iq2 ic : Nat) : Option (List UInt8) :=",
            "  %s.run F fuel %s %soff %s %s %s s0 t0 ia ta iq1 iq2 ic" % (callee, a[0], a[0], a[1], a[2], a[3]), ""]


CLONE = ("dest - > ctx = malloc ( %s ) ; if ( dest - > ctx == NULL ) { exit ( 111 ) ; } "
         "memcpy ( dest - > ctx , src - > ctx , %s ) ;")


def clone_release(src, fam, inc):
    """`shakeN[_inc]_ctx_clone`: malloc(M); NULL check; memcpy(dest->ctx, src->ctx, M) with M = 25 / 26 lanes (both occurrences resolved
    from the C text) -> `memcpyCtx lanes`;  `shakeN[_inc]_ctx_release`: exactly `free(state->ctx);` (no observable effect on the model:
    shape-checked only)"""
    base = "shake%s%s_ctx_" % (fam, "_inc" if inc else "")
    ty = "shake%s%sctx" % (fam, "inc" if inc else "")
    args, body = find_function(src, base + "clone")
    if not re.match(r"\s*%s\s*\*\s*dest\s*,\s*const\s+%s\s*\*\s*src\s*$" % (ty, ty), args):
        raise TranslateError("%sclone: unexpected parameter list %r" % (base, args))
    t = " ".join(sponge.tokenize(body, base + "clone"))
    lanes = None
    for mname, n in LANES.items():
        if t == CLONE % (mname, mname) and re.search(r"#define\s+%s\s+\(sizeof\(uint64_t\)\s*\*\s*%d\)" % (mname, n), src):
            lanes = n
    if lanes is None:
        raise TranslateError("%sclone: not malloc(M); NULL check; memcpy(dest->ctx, src->ctx, M)" % base)
    args, body = find_function(src, base + "release")
    if not re.match(r"\s*%s\s*\*\s*state\s*$" % ty, args) or sponge.tokenize(body, base) != "free ( state - > ctx ) ;".split():
        raise TranslateError("%srelease is not free(state->ctx)" % base)
    return ["/-- `%sclone`: fresh allocation `dest0` (arbitrary), then memcpy of %d lanes from `src->ctx` -/" % (base, lanes),
            "def %sclone.run (src : State × Nat) (dest0 : State × Nat) : State × Nat := memcpyCtx %d dest0 src" % (base, lanes), ""]


def emit(repo):
    src = strip_c_comments(open(os.path.join(repo, "src/common/generic/fips202.c")).read())
    mac = macros(src)
    f, body = extract_init(src)
    callees = {"keccak_inc_init": ([("s_inc", "counterlanes")], f.fields)}
    for name, g, _, _ in sponge.extract(repo):
        callees[name] = ([p for fn in sponge.FUNCS if fn[0] == name for p in fn[2]], g.fields)
    L = ["/- GENERATED by tools/translate/spongewrap.py from src/common/generic/fips202.c — do not edit.",
         "   `keccak_inc_init` as a structured program; the one-call SHAKE wrappers as calls of the generated programs. -/",
         "import SqiGen.Sponge", "namespace SqiGen.Sponge", "open SqiModel.Fips202 SqiModel.SpongeProg", "",
         "structure keccak_inc_init.V where"]
    L += ["  %s : %s" % nt for nt in f.fields] + [""]
    for bname, bterm in f.defs:
        L.append("def %s (F : State → State) (fuel : Nat) : keccak_inc_init.V → Option keccak_inc_init.V :=" % bname)
        L.append("  " + bterm)
    L += ["/-- `keccak_inc_init` -/",
          "def keccak_inc_init.run (F : State → State) (fuel : Nat) : keccak_inc_init.V → Option keccak_inc_init.V :=",
          "  " + body, ""]
    for w in WRAPPERS:
        L += wrapper(src, mac, callees, *w)
    for b in ("128", "256"):
        L += oneshot(src, mac, b)
    for b in ("128", "256"):
        L += upper(src, b)
    L += ["/-- `memcpy(dst, src, 8 * nl)` on a context = 25 lanes + (for the incremental API) the counter `s_inc[25]` as 26th lane -/",
          "def memcpyCtx (nl : Nat) (dst src : State × Nat) : State × Nat :=",
          "  (Vector.ofFn fun i => if i.val < nl then src.1[i] else dst.1[i], if 25 < nl then src.2 else dst.2)", ""]
    for b in ("128", "256"):
        for inc in (False, True):
            L += clone_release(src, b, inc)
    L += ["end SqiGen.Sponge", ""]
    return "\n".join(L)


def generate(repo, outdir):
    return ["SpongeWrap.lean regenerated"] if write_if_changed(os.path.join(outdir, "SpongeWrap.lean"), emit(repo)) else []


if __name__ == "__main__":
    import vlib
    print(generate(vlib.REPO, os.path.join(vlib.LEAN, "SqiGen")))

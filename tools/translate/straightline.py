#!/usr/bin/env python3
"""Tie T — straight-line translator: C functions of the accepted subset (DESIGN §2.2) -> Lean `def`s.

Input: the files of the repo *as they are on disk*. Output: lean/SqiGen/{Ec,Isog,Theta}.lean (+ *Ops.lean op tables
for the model driver). python3 stdlib only.

Each listed C function becomes one Lean `def`, a `let`-chain in program order over an arbitrary type `F` carrying
the core notation classes (`Add Sub Mul Neg Inv Zero One NatCast DecidableEq` — all core Lean, so the generated
files import nothing and link into the driver; over a Mathlib `Field F` the instances are found automatically).
  * every `fp2_{add,sub,mul,sqr,neg,copy,set_one,set_zero,set_small,inv,sqrt,select,cswap,batched_inv}` call is one
    `let`; in-place updates become shadowing; `fp2_sqrt` is a parameter `(sqrt : F → F)`;
  * C structs become Lean structures with the same field names (fixed arrays `K[3]` -> fields K0 K1 K2);
  * a pointer parameter that is written is an output; if some leaf of it can survive un-overwritten (or is read
    before written) its initial value is an input named `<p>_in` (in-out parameter);
  * `if/else` (incl. early `return`) is if-converted: both branches are emitted as lets with suffixed names and
    every location changed in a branch is selected by `if c then .. else ..` (all operations are total);
  * `for (j = 0; j < len; j++)` over arrays of points becomes `List.map` of a per-point def `<f>_pt`;
  * calls to other translated functions become calls of their defs.
Anything else raises `Unsupported` (a check failure by design).

Aliasing: the defs have no-alias semantics. For every call site in the repo (`src/**`, tests excluded) the argument
expressions are compared; for every alias pattern found the rule "no read through one parameter of a cell last
written through a different parameter, and no cell written through two parameters" is checked on the event trace
of the function. Valid patterns are recorded (and exercised by the correspondence harness); for an invalid exact
pattern the order-faithful def `<f>_al<k>` is emitted by re-translating with the parameters unified.
"""
import json, os, re, sys
HERE = os.path.dirname(os.path.abspath(__file__))
sys.path.insert(0, HERE)
import _cparse as cp
from _cparse import Unsupported

LEAN_RESERVED = {"in", "at", "from", "fun", "end", "open", "let", "have", "show", "then", "else", "if", "do", "by",
                 "with", "match", "where", "deriving", "instance", "class", "structure", "theorem", "def", "Type",
                 "Prop", "Sort", "namespace", "section", "variable", "universe", "import", "export", "mutual",
                 "private", "protected", "return", "for", "unless", "macro", "syntax", "notation", "using", "calc",
                 "obtain", "this", "sqrt", "F", "inductive", "abbrev", "example", "opaque", "axiom", "extends"}
INT_TYPES = {"int", "bool", "unsigned short", "unsigned int", "unsigned", "int32_t", "uint32_t", "uint64_t",
             "digit_t", "uint8_t", "short", "long", "unsigned long", "size_t"}
FP = "fp2_t"

# ------------------------------------------------------------------------------------------------ configuration
SRC = "src"
HEADERS = ["src/ec/ref/include/ec.h", "src/ec/ref/include/isog.h", "src/hd/ref/include/hd.h"]
UNITS = [
    dict(module="Ec", imports=[], files=["src/ec/ref/ecx/ec.c", "src/ec/ref/include/ec.h", "src/ec/ref/ecx/basis.c",
                                         "src/ec/ref/ecx/isog_chains.c"],
         functions=["ec_point_init", "ec_set_zero", "copy_point", "ec_curve_init", "copy_curve", "ec_normalize_point",
                    "ec_normalize_curve", "AC_to_A24", "A24_to_AC", "ec_curve_normalize_A24", "ec_is_zero",
                    "xDBL", "xDBL_A24", "xDBL_A24_normalized", "xADD", "xDBLADD", "xDBLADD_normalized",
                    "is_point_equal", "select_point", "swap_points", "ec_neg", "ec_j_inv",
                    "jac_init", "is_jac_equal", "jac_to_xz", "is_jac_xz_equal", "copy_jac_point", "jac_neg",
                    "DBL", "ADD", "TPL", "recover_y", "lift_point", "lift_basis", "difference_point",
                    "ec_isomorphism", "ec_iso_eval"]),
    dict(module="Isog", imports=["Ec"], files=["src/ec/ref/ecx/xisog.c", "src/ec/ref/ecx/xeval.c",
                                                "src/ec/ref/ecx/biextension.c"],
         functions=["xisog_2", "xisog_2_singular", "xisog_4", "xisog_4_singular",
                    "xeval_2", "xeval_2_singular", "xeval_4", "xeval_4_singular",
                    "A24_from_AC", "cubicalDBL", "cubicalADD", "biextDBL", "translate", "point_ratio", "ratio",
                    "x_coord"]),
    dict(module="Theta", imports=["Ec"], files=["src/hd/ref/hdx/theta_structure.h", "src/hd/ref/hdx/theta_structure.c",
                                                 "src/hd/ref/hdx/theta_isogenies.c"],
         functions=["hadamard", "to_squared_theta", "theta_precomputation", "double_point", "base_change",
                    "theta_isogeny_comput", "theta_isogeny_comput4", "theta_isogeny_comput2", "theta_isogeny_eval",
                    "apply_isomorphism", "theta_point_to_montgomery_point",
                    "theta_product_structure_to_elliptic_product"]),
]
# macro renames in curve_extras.h (`#define xADD ec_add`): C symbol -> name used in the sources
NOT_TRANSLATED = {
    "xMUL / xMULv2 / xDBLMUL / xDBLMUL_bounded / ec_ladder3pt / ec_dbl_iter / DBLMUL*": "loops over scalar bits: hand models (tie H) in SqiModel/Ladder.lean",
    "ec_dbl": "type pun `(ec_point_t const *)curve` (cast outside the subset); wrapper modelled by hand as xDBL P (A,C)",
    "ec_dlog_2 / ec_dlog_3 (+_step)": "control-heavy, printf, variable-length arrays: tie H of C11",
    "xisog_t / xeval_t / kps_t / CrissCross / xTPL": "odd-degree code not reached by the protocols (global K[83], table-driven loops)",
    "ec_is_on_curve": "calls fp2_is_square (L2 predicate, C07); not needed by C08/C09/C12 theorems",
    "gluing_comput / gluing_eval_* / splitting_comput / get_matrix / theta_chain_*": "table-driven loops, calls into ladders and struct arrays; tie H of C12",
    "choose_index_theta_point / set_index_theta_point": "integer `%` and assert(0) branch",
    "double_iter / biext_ladder_2e": "loop with run-time bound: hand model (iterate of the generated double_point / biextDBL)",
}


# thin C wrappers that are not translated themselves but whose call sites alias arguments of a translated function:
# wrapper -> (translated function, for each parameter of the function the wrapper's argument position)
WRAPPERS = {"ec_dbl": ("xDBL", [0, 2, 1])}


def lean_ident(n):
    return n + "_" if n in LEAN_RESERVED else n


def camel(ctype):
    base = ctype[:-2] if ctype.endswith("_t") else ctype
    return "".join(w.capitalize() for w in base.split("_"))


class Uninit(Unsupported):
    pass


# ------------------------------------------------------------------------------------------------ type universe
class Types:
    def __init__(self, structs):
        self.structs = structs          # ctype -> [(ftype, fname, arrlen)]

    def is_leaf(self, ty):
        return ty == FP or ty in INT_TYPES

    def children(self, ty):
        """[(comp, type)] — comp is a field name or an int index"""
        if isinstance(ty, tuple):       # ('arr', elem, n)
            if ty[2] is None:
                raise Unsupported("unbounded array used as a value")
            return [(i, ty[1]) for i in range(ty[2])]
        if self.is_leaf(ty):
            return []
        if ty not in self.structs:
            raise Unsupported("unknown type %r" % (ty,))
        out = []
        for fty, f, n in self.structs[ty]:
            if fty.endswith("*"):
                raise Unsupported("pointer field %s.%s" % (ty, f))
            out.append((f, ("arr", fty, n) if n is not None else fty))
        return out

    def child(self, ty, comp):
        if isinstance(ty, tuple):
            return ty[1]
        for c, t in self.children(ty):
            if c == comp:
                return t
        raise Unsupported("type %s has no field %r" % (ty, comp))

    def leaves(self, ty, prefix=()):
        if not isinstance(ty, tuple) and self.is_leaf(ty):
            return [(prefix, ty)]
        out = []
        for c, t in self.children(ty):
            out += self.leaves(t, prefix + (c,))
        return out

    def lean(self, ty):
        if ty == FP:
            return "F"
        if ty in INT_TYPES:
            return "Int"
        if isinstance(ty, tuple):
            raise Unsupported("array type has no Lean counterpart as a value")
        return "(%s F)" % camel(ty)

    def deps(self, ty, acc):
        if isinstance(ty, tuple):
            return self.deps(ty[1], acc)
        if self.is_leaf(ty) or ty in acc:
            return acc
        for _, t in self.children(ty):
            self.deps(t, acc)
        acc.append(ty)
        return acc

    def struct_decl(self, ty):
        fs = []
        for fty, f, n in self.structs[ty]:
            if n is None:
                fs.append("  %s : %s" % (lean_ident(f), self.lean(fty).strip("()") if fty in (FP,) or fty in INT_TYPES else self.lean(fty)[1:-1]))
            else:
                for i in range(n):
                    fs.append("  %s%d : %s" % (f, i, self.lean(fty).strip("()")))
        return "structure %s (F : Type) where\n%s" % (camel(ty), "\n".join(fs))


# ------------------------------------------------------------------------------------------------ function record
class Fn:
    def __init__(self, name, file, ret, params, body, line):
        self.name, self.file, self.ret, self.params, self.body, self.line = name, file, ret, params, body, line
        self.kind = "plain"             # plain | map
        # filled by translation
        self.ins = []                   # [(lean_name, type, cparam, 'in'|'inout')]
        self.outs = []                  # [(cparam, type)]
        self.retkind = None             # None | 'bool' | 'int'
        self.uses_sqrt = False
        self.events = None
        self.text = ""
        self.patterns = []              # alias patterns (see alias scan)
        self.variants = {}              # pattern key -> Fn-like dict for order-faithful variants


class Translator:
    """translates one function body (optionally with parameters unified: `unify[p] = (q,)+suffix`)"""

    def __init__(self, world, fn, unify=None):
        self.W, self.fn, self.T = world, fn, world.types
        self.unify = unify or {}
        self.lines = []
        self.env = {}
        self.vty = {}                   # root -> type
        self.ptr_alias = {}             # local pointer name -> path
        self.skind = {}                 # path -> 'bool' for scalar locals holding a condition
        self.events = []                # ('r'|'w', path) | ('if', [then events], [else events])
        self.ev_stack = [self.events]
        self.sfx = ""
        self.nbranch = 0
        self.ntmp = 0
        self.uses_sqrt = False
        self.used_initial = set()
        self.loopvar = None
        self.array_params = set()
        self.int_params = set()

    # ------------------------------------------------------------ paths, types, names
    def err(self, ln, msg):
        raise Unsupported("translator: %s:%s: in %s: %s" % (self.fn.file, ln, self.fn.name, msg))

    def type_of(self, path):
        ty = self.vty[path[0]]
        for c in path[1:]:
            ty = self.T.child(ty, c)
        return ty

    def pname(self, path):
        return lean_ident("_".join(str(c).replace("@", "") for c in path)) + self.sfx

    def proj(self, expr, base, comps):
        ty = self.type_of(base)
        i = 0
        while i < len(comps):
            c = comps[i]
            if isinstance(ty, tuple):
                self.err("?", "projection through a first-class array")
            fty = self.T.child(ty, c)
            if isinstance(fty, tuple):
                if i + 1 >= len(comps):
                    self.err("?", "array field used as a value")
                expr += ".%s%s" % (c, comps[i + 1])
                ty = fty[1]
                i += 2
            else:
                expr += "." + lean_ident(str(c))
                ty = fty
                i += 1
        return expr

    def canon(self, path):
        r = path[0]
        if r in self.unify:
            return tuple(self.unify[r]) + tuple(path[1:])
        return path

    def ev(self, kind, path):
        ty = self.type_of(path)
        for lp, _ in self.T.leaves(ty, path) if not (isinstance(ty, tuple) and ty[2] is None) else []:
            self.ev_stack[-1].append((kind, lp))

    def read(self, path, note=True, ln="?"):
        if note:
            self.ev("r", path)
        for k in range(len(path), 0, -1):
            if path[:k] in self.env:
                return self.proj(self.env[path[:k]], path[:k], path[k:])
        ty = self.type_of(path)
        if isinstance(ty, tuple):
            self.err(ln, "array %s used as a value" % (path,))
        ch = self.T.children(ty)
        if not ch:
            raise Uninit("translator: %s:%s: in %s: read of uninitialised %s" % (self.fn.file, ln, self.fn.name, ".".join(map(str, path))))
        parts = []
        for c, t in ch:
            if isinstance(t, tuple):
                for i in range(t[2]):
                    parts.append("%s%d := %s" % (c, i, self.read(path + (c, i), False, ln)))
            else:
                parts.append("%s := %s" % (lean_ident(c), self.read(path + (c,), False, ln)))
        return "{ " + ", ".join(parts) + " }"

    def explode_to(self, path):
        """make sure no ancestor of `path` has a whole entry (split it into siblings)"""
        for k in range(1, len(path)):
            anc = path[:k]
            if anc in self.env:
                e = self.env.pop(anc)
                for c, t in self.T.children(self.type_of(anc)):
                    self.env[anc + (c,)] = self.proj(e, anc, (c,)) if not isinstance(t, tuple) else None
                    if isinstance(t, tuple):
                        del self.env[anc + (c,)]
                        for i in range(t[2]):
                            self.env[anc + (c, i)] = self.proj(e, anc, (c, i))

    def write(self, path, rhs, ln="?"):
        """emit `let <name> := rhs` and bind path"""
        self.ev("w", path)
        self.explode_to(path)
        for k in [k for k in self.env if k[:len(path)] == path]:
            del self.env[k]
        name = self.pname(path)
        self.lines.append("let %s := %s" % (name, rhs))
        self.env[path] = name
        return name

    # ------------------------------------------------------------ expressions
    def place(self, e, ln):
        k = e[0]
        if k == "id":
            n = e[1]
            if n in self.ptr_alias:
                return self.ptr_alias[n]
            if n not in self.vty:
                self.err(ln, "unknown identifier %r" % n)
            return self.canon((n,))
        if k == "un" and e[1] in ("&", "*"):
            return self.place(e[2], ln)
        if k == "member":
            return self.place(e[1], ln) + (e[2],)
        if k == "index":
            base = self.place(e[1], ln)
            i = e[2]
            if i[0] == "num":
                return base + (i[1],)
            if i[0] == "id" and i[1] == self.loopvar:
                return base + ("@" + i[1],)
            self.err(ln, "array index must be a literal or the loop variable")
        if k == "cast":
            self.err(ln, "pointer cast / type pun")
        self.err(ln, "expression does not designate an object: %r" % (e,))

    def atom(self, s):
        return s if re.match(r"^[\w.'₀-₉]+$", s) else "(" + s + ")"

    def fpval(self, e, ln):
        """value of an fp2 object argument"""
        p = self.place(e, ln)
        if self.type_of(p) != FP:
            self.err(ln, "fp2 operand expected at %s" % (p,))
        return self.read(p, ln=ln)

    def sexpr(self, e, ln):
        """scalar (int/bool) expression -> (lean, kind)"""
        k = e[0]
        if k == "num":
            return str(e[1]), "int"
        if k == "un" and e[1] == "-" and e[2][0] == "num":
            return "(-%d)" % e[2][1], "int"
        if k in ("id", "member", "index"):
            p = self.place(e, ln)
            ty = self.type_of(p)
            if ty not in INT_TYPES:
                self.err(ln, "scalar expected: %s" % (p,))
            return self.read(p, ln=ln), self.skind.get(p, "int")
        if k == "un" and e[1] == "!":
            return "(!%s)" % self.tobool(self.sexpr(e[2], ln)), "bool"
        if k == "bin" and e[1] in ("&&", "||"):
            return "(%s %s %s)" % (self.tobool(self.sexpr(e[2], ln)), e[1], self.tobool(self.sexpr(e[3], ln))), "bool"
        if k == "bin" and e[1] in ("==", "!="):
            a, ka = self.sexpr(e[2], ln)
            b, kb = self.sexpr(e[3], ln)
            if ka != "int" or kb != "int":
                self.err(ln, "comparison of non-integers")
            return "(decide (%s %s %s))" % (a, "=" if e[1] == "==" else "≠", b), "bool"
        if k == "call":
            f, args = e[1], e[2]
            if f == "fp2_is_zero":
                return "(decide (%s = 0))" % self.fpval(args[0], ln), "bool"
            if f == "fp2_is_one":
                return "(decide (%s = 1))" % self.fpval(args[0], ln), "bool"
            if f == "fp2_is_equal":
                return "(decide (%s = %s))" % (self.fpval(args[0], ln), self.fpval(args[1], ln)), "bool"
            g = self.W.get_fn(f, ln, self)
            if g is not None and g.retkind and not g.outs:
                return "(" + self.call_expr(g, args, ln) + ")", g.retkind
        self.err(ln, "scalar expression outside the subset: %r" % (e,))

    def tobool(self, sk):
        s, k = sk
        return s if k == "bool" else "(decide (%s ≠ 0))" % s

    # ------------------------------------------------------------ calls
    def call_expr(self, g, args, ln):
        """Lean application of translated function g to the C argument expressions (inputs only)"""
        if len(args) != len(g.params):
            self.err(ln, "call of %s with %d arguments" % (g.name, len(args)))
        parts = [g.name]
        if g.uses_sqrt:
            parts.append("sqrt")
            self.uses_sqrt = True
        amap = {p[1]: a for p, a in zip(g.params, args)}
        for lname, ty, cparam, mode in g.ins:
            a = amap[cparam]
            if ty in INT_TYPES:
                s, kd = self.sexpr(a, ln)
                if kd == "bool":
                    s = "(if %s then 1 else 0)" % s
                parts.append(self.atom(s))
            else:
                p = self.place(a, ln)
                if self.type_of(p) != ty:
                    self.err(ln, "argument type mismatch for %s.%s: %s vs %s" % (g.name, cparam, self.type_of(p), ty))
                parts.append(self.atom(self.read(p, ln=ln)))
        return " ".join(parts)

    def do_call(self, e, ln):
        f, args = e[1], e[2]
        A = lambda i: self.fpval(args[i], ln)
        D = lambda i=0: self.place(args[i], ln)
        if f in ("fp2_add", "fp2_sub", "fp2_mul"):
            op = {"fp2_add": "+", "fp2_sub": "-", "fp2_mul": "*"}[f]
            rhs = "%s %s %s" % (A(1), op, A(2))
            return self.write(D(), rhs, ln)
        if f == "fp2_sqr":
            a = A(1)
            return self.write(D(), "%s * %s" % (a, a), ln)
        if f == "fp2_neg":
            return self.write(D(), "-%s" % A(1), ln)
        if f == "fp2_copy":
            return self.write(D(), A(1), ln)
        if f == "fp2_set_one":
            return self.write(D(), "1", ln)
        if f == "fp2_set_zero":
            return self.write(D(), "0", ln)
        if f in ("fp2_set_small", "fp2_sett"):
            s, kd = self.sexpr(args[1], ln)
            if not re.match(r"^\(?-?\d+\)?$", s):
                self.err(ln, "%s with a non-literal value" % f)
            v = int(s.strip("()"))
            if v < 0 and f == "fp2_set_small":
                self.err(ln, "fp2_set_small of a negative literal")
            rhs = {1: "1", 0: "0", -1: "-1"}.get(v, "((%d : Nat) : F)" % v)
            return self.write(D(), rhs, ln)
        if f == "fp2_inv":
            return self.write(D(), "%s⁻¹" % self.atom(A(0)), ln)
        if f == "fp2_sqrt":
            self.uses_sqrt = True
            return self.write(D(), "sqrt %s" % self.atom(A(0)), ln)
        if f == "fp2_select":
            c = self.tobool(self.sexpr(args[3], ln))
            return self.write(D(), "if %s then %s else %s" % (c, A(2), A(1)), ln)
        if f == "fp2_cswap":
            c = self.tobool(self.sexpr(args[2], ln))
            a, b = A(0), A(1)
            pa, pb = D(0), D(1)
            # both new values are computed from the old ones
            na = "if %s then %s else %s" % (c, b, a)
            nb = "if %s then %s else %s" % (c, a, b)
            self.ntmp += 1
            tmp = "cswap%d%s" % (self.ntmp, self.sfx)
            self.lines.append("let %s := %s" % (tmp, nb))
            self.write(pa, na, ln)
            self.ev("w", pb)
            self.explode_to(pb)
            self.lines.append("let %s := %s" % (self.pname(pb), tmp))
            self.env[pb] = self.pname(pb)
            return
        if f == "fp2_batched_inv":
            # faithful unrolling of gf/ref/gfx/fp2.c:fp2_batched_inv for a literal length (checked by the harness)
            base = D()
            n = args[1]
            if n[0] != "num" or n[1] < 1:
                self.err(ln, "fp2_batched_inv with non-literal length")
            n = n[1]
            x0 = [self.read(base + (i,), ln=ln) for i in range(n)]
            self.ntmp += 1
            # repaired routine (fix 17faca0): z[i] = is_zero(x[i]); x[i] = select(x[i], one, z[i]); product chain;
            # x[i] = select(x[i], zero, z[i])
            x = ["binv%d_x_%d%s" % (self.ntmp, i, self.sfx) for i in range(n)]
            for i in range(n):
                self.lines.append("let %s := if %s = 0 then 1 else %s" % (x[i], x0[i], x0[i]))
            t1 = ["binv%d_t1_%d%s" % (self.ntmp, i, self.sfx) for i in range(n)]
            t2 = ["binv%d_t2_%d%s" % (self.ntmp, i, self.sfx) for i in range(n)]
            self.lines.append("let %s := %s" % (t1[0], x[0]))
            for i in range(1, n):
                self.lines.append("let %s := %s * %s" % (t1[i], t1[i - 1], x[i]))
            self.lines.append("let %s := %s⁻¹" % (t2[0], t1[n - 1]))
            for i in range(1, n):
                self.lines.append("let %s := %s * %s" % (t2[i], t2[i - 1], x[n - i]))
            self.write(base + (0,), "(if %s = 0 then 0 else %s)" % (x0[0], t2[n - 1]), ln)
            for i in range(1, n):
                self.write(base + (i,), "(if %s = 0 then 0 else %s * %s)" % (x0[i], t1[i - 1], t2[n - i - 1]), ln)
            return
        if f in ("assert", "printf", "fp2_print"):
            if f == "printf":
                self.err(ln, "printf in a translated function")
            return
        g = self.W.get_fn(f, ln, self)
        if g is None:
            self.err(ln, "call of %s: function outside the translated set" % f)
        if g.kind == "map":
            self.err(ln, "call of list function %s from translated code" % f)
        amap = {p[1]: a for p, a in zip(g.params, args)}
        call = self.call_expr(g, args, ln)
        if g.retkind and not g.outs:
            return      # pure predicate called for nothing
        outs = [(self.place(amap[cp_], ln), ty) for cp_, ty in g.outs]
        if len(outs) == 1:
            self.write(outs[0][0], call, ln)
        else:
            self.ntmp += 1
            r = "r%d%s" % (self.ntmp, self.sfx)
            self.lines.append("let %s := %s" % (r, call))
            for i, (p, ty) in enumerate(outs):
                self.write(p, "%s.%s" % (r, tuple_proj(i, len(outs))), ln)

    # ------------------------------------------------------------ statements
    def ends_with_return(self, stmts):
        if not stmts:
            return False
        s = stmts[-1]
        if s[0] == "return":
            return True
        if s[0] == "block":
            return self.ends_with_return(s[1])
        if s[0] == "if" and s[3] is not None:
            return self.ends_with_return(s[2]) and self.ends_with_return(s[3])
        return False

    def contains_return(self, stmts):
        for s in stmts:
            if s[0] == "return":
                return True
            if s[0] == "block" and self.contains_return(s[1]):
                return True
            if s[0] == "if" and (self.contains_return(s[2]) or (s[3] and self.contains_return(s[3]))):
                return True
            if s[0] == "for" and self.contains_return(s[4]):
                return True
        return False

    def stmts(self, ss):
        i = 0
        while i < len(ss):
            s = ss[i]
            k = s[0]
            ln = s[-1]
            if k == "block":
                self.stmts(s[1])
            elif k == "decl":
                self.decl(s)
            elif k == "expr":
                if s[1][0] != "call":
                    self.err(ln, "expression statement that is not a call")
                self.do_call(s[1], ln)
            elif k == "assign":
                self.assign(s[1], s[2], ln)
            elif k == "return":
                if s[1] is not None:
                    v, kd = self.sexpr(s[1], ln)
                    self.vty["__ret"] = "int"
                    self.skind[("__ret",)] = kd
                    self.write(("__ret",), v, ln)
                if i != len(ss) - 1:
                    self.err(ln, "statements after return")
                return
            elif k == "if":
                rest = ss[i + 1:]
                th, el = s[2], (s[3] or [])
                tr, er = self.ends_with_return(th), self.ends_with_return(el)
                if tr and er:
                    self.branch(s[1], th, el, ln)
                    if rest:
                        self.err(ln, "dead code after if/else that always returns")
                    return
                if self.contains_return(th) or self.contains_return(el):
                    # early return: the rest of the block is the continuation of every path that does not return
                    self.branch(s[1], th + ([] if tr else rest), el + ([] if er else rest), ln)
                    return
                self.branch(s[1], th, el, ln)
            elif k == "for":
                self.err(ln, "for loop outside the `map over an array of points` pattern")
            else:
                self.err(ln, "statement kind %r" % k)
            i += 1

    def decl(self, s):
        _, ty, decls, ln = s
        for name, ptr, dims, init in decls:
            if name in self.vty or name in self.ptr_alias:
                self.err(ln, "redeclaration / shadowing of %s" % name)
            if ptr:
                if init is None:
                    self.err(ln, "pointer local without initialiser")
                self.ptr_alias[name] = self.place(init, ln)
                continue
            t = ty
            for d in reversed(dims):
                if d[0] != "num":
                    self.err(ln, "array dimension must be a literal")
                t = ("arr", t, d[1])
            if not (t == FP or t in INT_TYPES or isinstance(t, tuple) or t in self.T.structs):
                self.err(ln, "local of type %r" % (t,))
            self.vty[name] = t
            if init is not None:
                if t in INT_TYPES:
                    v, kd = self.sexpr(init, ln)
                    self.skind[(name,)] = kd
                    self.write((name,), v, ln)
                elif init[0] == "init":
                    self.err(ln, "brace initialiser")
                else:
                    self.assign(("id", name), init, ln)

    def assign(self, lhs, rhs, ln):
        p = self.place(lhs, ln)
        ty = self.type_of(p)
        if ty in INT_TYPES:
            v, kd = self.sexpr(rhs, ln)
            if kd == "bool" and len(p) > 1:
                v = "(if %s then 1 else 0)" % v
                kd = "int"
            self.skind[p] = kd
            self.write(p, v, ln)
            return
        q = self.place(rhs, ln)
        if self.type_of(q) != ty:
            self.err(ln, "struct assignment between different types")
        self.write(p, self.read(q, ln=ln), ln)

    def branch(self, cond, th, el, ln):
        c = self.tobool(self.sexpr(cond, ln))
        self.nbranch += 1
        cname = "c%d%s" % (self.nbranch, self.sfx)
        self.lines.append("let %s : Bool := %s" % (cname, c))
        env0, sk0, outer = dict(self.env), dict(self.skind), self.sfx
        res = []
        evs = []
        for tag, body in (("t", th), ("e", el)):
            self.env, self.skind = dict(env0), dict(sk0)
            self.nbranch += 1
            self.sfx = "_%s%d" % (tag, self.nbranch)
            sub = []
            self.ev_stack.append(sub)
            self.stmts(body)
            self.ev_stack.pop()
            evs.append(sub)
            res.append((self.env, self.skind))
        self.ev_stack[-1].append(("if", evs[0], evs[1]))
        self.sfx = outer
        (e1, k1), (e2, k2) = res
        self.env, self.skind = dict(env0), dict(sk0)
        changed = sorted({k for k in set(e1) | set(e2) if e1.get(k) != e2.get(k) or e1.get(k) != env0.get(k)},
                         key=lambda k: (len(k), [str(c) for c in k]))
        merged = dict(env0)
        self.env = merged
        done = []
        for q in changed:
            if any(q[:len(d)] == d for d in done):
                continue
            done.append(q)
            vals = []
            for e in (e1, e2):
                self.env = e
                try:
                    vals.append(self.read(q, note=False, ln=ln))
                except Uninit:
                    vals.append(None)
            self.env = merged
            self.explode_to(q)
            for k in [k for k in merged if k[:len(q)] == q]:
                del merged[k]
            if vals[0] is None or vals[1] is None:
                continue                      # uninitialised on one path: stays uninitialised
            if vals[0] == vals[1]:
                nm = self.pname(q)
                self.lines.append("let %s := %s" % (nm, vals[0]))
            else:
                nm = self.pname(q)
                self.lines.append("let %s := if %s then %s else %s" % (nm, cname, vals[0], vals[1]))
            merged[q] = nm
            if k1.get(q) == "bool" or k2.get(q) == "bool":
                if k1.get(q) != k2.get(q):
                    self.err(ln, "scalar %s is a condition on one path and an integer on the other" % (q,))
                self.skind[q] = "bool"
        self.env = merged

    # ------------------------------------------------------------ whole function
    def setup_params(self):
        fn = self.fn
        idx_bases = set()

        def scan(e):
            if isinstance(e, tuple):
                if e and e[0] == "index" and e[1][0] == "id":
                    idx_bases.add(e[1][1])
                for x in e:
                    scan(x)
            elif isinstance(e, list):
                for x in e:
                    scan(x)
        scan(fn.body)
        self.param_mode = {}
        for ctype, name, is_ptr, const, dims in fn.params:
            if ctype in INT_TYPES and not is_ptr:
                self.vty[name] = ctype
                self.env[(name,)] = lean_ident(name)
                self.int_params.add(name)
                self.param_mode[name] = "val"
                continue
            if ctype in INT_TYPES and is_ptr:
                self.err(fn.line, "pointer to integer parameter %s" % name)
            if ctype != FP and ctype not in self.T.structs:
                self.err(fn.line, "parameter %s of type %r" % (name, ctype))
            if is_ptr and (name in idx_bases or dims):
                self.vty[name] = ("arr", ctype, None)
                self.array_params.add(name)
                self.param_mode[name] = "arr"
                continue
            self.vty[name] = ctype
            if name in self.unify:
                self.param_mode[name] = "unified"
                continue
            # non-const pointers may be outputs: their initial value is called <name>_in
            self.param_mode[name] = "ptr" if (is_ptr and not const) else "val"
            self.env[(name,)] = lean_ident(name) + ("_in" if self.param_mode[name] == "ptr" else "")

    def referenced(self, ident, texts):
        pat = re.compile(r"(?<![\w.])%s(?![\w'])" % re.escape(ident))
        return any(pat.search(t) for t in texts)

    def written_roots(self, events=None, acc=None):
        acc = set() if acc is None else acc
        for e in (self.events if events is None else events):
            if e[0] == "w":
                acc.add(e[1][0])
            elif e[0] == "if":
                self.written_roots(e[1], acc)
                self.written_roots(e[2], acc)
        return acc

    def run(self):
        fn = self.fn
        self.setup_params()
        body = fn.body
        loops = [s for s in body if s[0] == "for"]
        if loops:
            return self.run_map(body, loops)
        self.stmts(body)
        return self.finish(fn.name)

    def finish(self, defname, extra_in=(), result_path=None, header_only_params=None):
        fn, T = self.fn, self.T
        wr = self.written_roots()
        outs, results = [], []
        for ctype, name, is_ptr, const, dims in fn.params:
            if self.param_mode.get(name) == "ptr" and name in wr:
                outs.append((name, ctype))
                results.append(self.read((name,), note=False))
            elif self.param_mode.get(name) == "val" and name in wr and is_ptr:
                self.err(fn.line, "write through const pointer %s" % name)
        retkind = None
        if ("__ret",) in self.env:
            retkind = self.skind.get(("__ret",), "int")
            if outs:
                self.err(fn.line, "function with both a return value and output parameters")
            results = [self.env[("__ret",)]]
        elif fn.ret.replace("static", "").replace("inline", "").strip() != "void":
            self.err(fn.line, "non-void function without translated return")
        for ctype, name, is_ptr, const, dims in fn.params:
            if self.param_mode.get(name) == "ptr" and name not in wr:
                pat = re.compile(r"(?<![\w.])%s_in(?![\w'])" % re.escape(lean_ident(name)))
                self.lines = [pat.sub(lean_ident(name), l) for l in self.lines]
                results = [pat.sub(lean_ident(name), l) for l in results]
                self.param_mode[name] = "val"
        texts = self.lines + results
        ins = []
        for ctype, name, is_ptr, const, dims in fn.params:
            mode = self.param_mode.get(name)
            if mode == "val":
                if self.referenced(lean_ident(name), texts):
                    ins.append((lean_ident(name), ctype, name, "in"))
            elif mode == "ptr":
                if self.referenced(lean_ident(name) + "_in", texts):
                    ins.append((lean_ident(name) + "_in", ctype, name, "inout" if name in wr else "in"))
        if not results:
            self.err(fn.line, "function has no output")
        if retkind:
            rty = "Bool" if retkind == "bool" else "Int"
        else:
            rty = " × ".join(T.lean(t).strip("()") if len(outs) == 1 else T.lean(t) for _, t in outs)
        sig = "".join(" (%s : %s)" % (n, T.lean(t).strip("()")) for n, t, _, _ in ins)
        head = "def %s%s%s : %s :=" % (defname, " (sqrt : F → F)" if self.uses_sqrt else "", sig, rty)
        res = results[0] if len(results) == 1 else "(" + ", ".join(results) + ")"
        text = head + "\n" + "".join("  " + l + "\n" for l in self.lines) + "  " + res + "\n"
        return dict(text=text, ins=ins, outs=outs, retkind=retkind, uses_sqrt=self.uses_sqrt, events=self.events)

    def run_map(self, body, loops):
        fn, T = self.fn, self.T
        if len(loops) != 1:
            self.err(fn.line, "more than one loop")
        for s in body:
            if s[0] == "decl":
                self.decl(s)
                for name, ptr, dims, init in s[2]:
                    if init is not None and not ptr:
                        self.err(s[-1], "initialised local outside the loop of a list function")
            elif s[0] != "for":
                self.err(s[-1], "statement outside the loop of a list function")
        _, var, lo, hi, lbody, ln = loops[0]
        if lo != ("num", 0) or hi[0] != "id" or hi[1] not in self.int_params:
            self.err(ln, "loop must run from 0 to an integer length parameter")
        self.len_param = hi[1]
        self.loopvar = var
        elem_in = {}
        for a in sorted(self.array_params):
            root = self.canon((a,))
            mode = [p for p in fn.params if p[1] == a][0]
            self.env[root + ("@" + var,)] = "%s_%s" % (lean_ident(a), var) if root == (a,) else self.env[root + ("@" + var,)]
        self.stmts(lbody)
        wr = self.written_roots()
        out_arrays = [a for a in sorted(self.array_params) if self.canon((a,))[0] in wr and self.canon((a,)) == (a,)]
        if len(out_arrays) != 1:
            self.err(ln, "list function must write exactly one array (found %s)" % out_arrays)
        R = out_arrays[0]
        result = self.read((R, "@" + var), note=False)
        texts = self.lines + [result]
        in_arrays = [a for a in sorted(self.array_params) if self.referenced("%s_%s" % (lean_ident(a), var), texts)]
        if len(in_arrays) != 1:
            self.err(ln, "list function must read exactly one array (found %s)" % in_arrays)
        Q = in_arrays[0]
        if Q == R and not self.unify:
            self.err(ln, "output array elements are read (in-out list)")
        ety = self.vty[Q][1]
        rty = self.vty[R][1]
        ins = []
        for ctype, name, is_ptr, const, dims in fn.params:
            mode = self.param_mode.get(name)
            if mode in ("val", "ptr") and name != self.len_param:
                nm = lean_ident(name) + ("_in" if mode == "ptr" else "")
                if name in wr:
                    self.err(ln, "list function writes non-array parameter %s" % name)
                if self.referenced(nm, texts):
                    ins.append((nm, ctype, name, "in"))
        sig = "".join(" (%s : %s)" % (n, T.lean(t).strip("()")) for n, t, _, _ in ins)
        sq = " (sqrt : F → F)" if self.uses_sqrt else ""
        ev = "%s_%s" % (lean_ident(Q), var)
        pt = "def %s_pt%s (%s : %s)%s : %s :=\n" % (fn.name, sq, ev, T.lean(ety).strip("()"), sig, T.lean(rty).strip("()"))
        pt += "".join("  " + l + "\n" for l in self.lines) + "  " + result + "\n"
        args = "".join(" " + n for n, _, _, _ in ins)
        lst = "def %s%s (%s : List %s)%s : List %s :=\n  %s.map (fun %s => %s_pt%s %s%s)\n" % (
            fn.name, sq, lean_ident(Q), T.lean(ety), sig, T.lean(rty), lean_ident(Q), ev, fn.name,
            " sqrt" if self.uses_sqrt else "", ev, args)
        return dict(text=pt + "\n" + lst, ins=[(lean_ident(Q), ("list", ety), Q, "in")] + ins, outs=[(R, ("list", rty))],
                    retkind=None, uses_sqrt=self.uses_sqrt, events=self.events, kind="map", elem_in=Q, elem_out=R,
                    loopvar=var, len_param=self.len_param)


def tuple_proj(i, n):
    """projection path of the i-th component of a right-nested n-tuple"""
    if n == 1:
        return ""
    if i == 0:
        return "1"
    return "2" if n == 2 else "2." + tuple_proj(i - 1, n - 1)


# ------------------------------------------------------------------------------------------------ the world
class World:
    def __init__(self, repo):
        self.repo = repo
        self.src = {}
        structs = {}
        for h in HEADERS:
            structs.update(cp.parse_structs(self.text(h), h))
        self.types = Types(structs)
        self.typenames = set(structs) | {FP}
        self.fns = {}
        self.where = {}
        self.order = []
        self.current_files = []
        self.in_progress = []

    def text(self, rel):
        if rel not in self.src:
            self.src[rel] = cp.strip_comments(open(os.path.join(self.repo, rel)).read())
        return self.src[rel]

    def load_fn(self, name, files):
        for f in files:
            r = cp.find_function(self.text(f), name)
            if r:
                ret, ptxt, body, line = r
                params = cp.parse_params(ptxt, f, self.typenames)
                stmts = cp.parse_body(body, f, line, self.typenames)
                return Fn(name, f, ret, params, stmts, line)
        return None

    def get_fn(self, name, ln=None, caller=None):
        """translated function record (translating it on demand)"""
        if name in self.fns:
            return self.fns[name]
        if name in self.in_progress:
            raise Unsupported("translator: recursion through %s" % name)
        if name not in self.wanted:
            return None
        fn = self.load_fn(name, self.all_files)
        if fn is None:
            raise Unsupported("translator: definition of %s not found in %s" % (name, self.all_files))
        self.in_progress.append(name)
        r = Translator(self, fn).run()
        self.in_progress.pop()
        fn.text, fn.ins, fn.outs, fn.retkind, fn.uses_sqrt, fn.events = r["text"], r["ins"], r["outs"], r["retkind"], r["uses_sqrt"], r["events"]
        fn.kind = r.get("kind", "plain")
        fn.extra = r
        self.fns[name] = fn
        self.order.append(name)
        return fn

    # ------------------------------------------------------------ alias scan
    def repo_sources(self):
        out = []
        for d, _, fs in os.walk(os.path.join(self.repo, SRC)):
            if "/test" in d or "/broadwell" in d or "/lvl" in d and "/gf/" in d:
                continue
            for f in sorted(fs):
                if f.endswith((".c", ".h")):
                    out.append(os.path.relpath(os.path.join(d, f), self.repo))
        return sorted(out)

    @staticmethod
    def norm_arg(a):
        a = re.sub(r"\s+", "", a)
        a = re.sub(r"^\((?:const)?\w+(?:const)?\*+\)", "", a)     # pointer cast
        while a.startswith("&") or (a.startswith("(") and a.endswith(")") and balanced(a[1:-1])):
            a = a[1:] if a.startswith("&") else a[1:-1]
        a = a.replace("->", ".").replace("(", "").replace(")", "").replace("*", "")
        return a

    def scan_aliases(self):
        """for every translated function: the set of alias patterns used at call sites of the repo"""
        files = self.repo_sources()
        macro = {"is_point_equal": ["is_point_equal", "ec_is_equal"], "xADD": ["xADD", "ec_add"]}
        for name, fn in self.fns.items():
            pats = {}
            ptr_idx = [i for i, p in enumerate(fn.params) if p[2]]
            for f in files:
                txt = self.text(f)
                for nm in macro.get(name, [name]) + [w for w, (t, _) in WRAPPERS.items() if t == name]:
                    for line, args, pos in cp.call_sites(txt, nm):
                        if nm in WRAPPERS and len(args) == len(fn.params):
                            args = [args[k] for k in WRAPPERS[nm][1]]
                        if len(args) != len(fn.params):
                            continue
                        if any(re.match(r"^(const\s+)?\w+\s+(const\s+)?\*?\s*\w+$", a) and a.split()[0] in
                               (self.typenames | {"const", "int", "digit_t", "unsigned"}) for a in args):
                            continue        # prototype
                        na = [self.norm_arg(a) for a in args]
                        pairs = []
                        for x in range(len(ptr_idx)):
                            for y in range(x + 1, len(ptr_idx)):
                                i, j = ptr_idx[x], ptr_idx[y]
                                a, b = na[i], na[j]
                                if a == b:
                                    pairs.append((i, j, ""))
                                elif a.startswith(b + ".") or a.startswith(b + "["):
                                    pairs.append((i, j, a[len(b):]))      # arg_i is a sub-object of arg_j
                                elif b.startswith(a + ".") or b.startswith(a + "["):
                                    pairs.append((j, i, b[len(a):]))
                        if pairs:
                            key = tuple(sorted(pairs))
                            pats.setdefault(key, []).append("%s:%d" % (f, line))
            fn.patterns = []
            for key, sites in sorted(pats.items()):
                ok, why = self.check_pattern(fn, key)
                fn.patterns.append(dict(pairs=[list(p) for p in key], sites=sites[:6], nsites=len(sites), valid=ok, why=why))

    def check_pattern(self, fn, key):
        """True iff the no-alias def is valid when the parameters are aliased as in `key`"""
        names = [p[1] for p in fn.params]
        unify = {}
        for i, j, suffix in key:
            comps = tuple(int(c) if c.isdigit() else c for c in re.findall(r"\w+", suffix))
            unify[names[i]] = (names[j],) + comps
        # resolve chains
        def canon(path):
            seen = 0
            while path[0] in unify and seen < 8:
                path = unify[path[0]] + tuple(path[1:])
                seen += 1
            return path
        if fn.kind == "map":
            canon_l = lambda p: canon(p)
        bad = []

        def walk(events, lw):
            for e in events:
                if e[0] == "if":
                    a, b = dict(lw), dict(lw)
                    walk(e[1], a)
                    walk(e[2], b)
                    lw.clear()
                    for k in set(a) | set(b):
                        lw[k] = a.get(k, frozenset()) | b.get(k, frozenset())
                    continue
                kind, path = e
                root = path[0]
                if root not in names:
                    continue
                c = canon(path)
                if kind == "r":
                    ws = lw.get(c, frozenset())
                    if any(w != root for w in ws):
                        bad.append("read of %s through %s after a write through %s" % (".".join(map(str, c)), root, sorted(ws - {root})[0]))
                else:
                    ws = lw.get(c, frozenset())
                    lw[c] = frozenset([root])
                    if any(w != root for w in ws):
                        bad.append("cell %s written through %s and %s" % (".".join(map(str, c)), root, sorted(ws - {root})[0]))
        walk(fn.events, {})
        return (not bad), (bad[0] if bad else "")


def balanced(s):
    d = 0
    for c in s:
        if c == "(":
            d += 1
        elif c == ")":
            d -= 1
            if d < 0:
                return False
    return d == 0


HEADER = """%s/- GENERATED by tools/translate/straightline.py from the C sources of the repo working tree — do not edit.
   One `def` per C function (no-alias semantics, `let`-chain in program order). Core Lean only. -/
set_option linter.unusedVariables false

namespace SqiGen
variable {F : Type} [Add F] [Sub F] [Mul F] [Neg F] [Inv F] [Zero F] [One F] [NatCast F] [DecidableEq F]

"""


def analyze(repo):
    """translate everything; returns (world, {module: lean text})"""
    W = World(repo)
    W.wanted = set()
    W.all_files = []
    for u in UNITS:
        W.wanted |= set(u["functions"])
        for f in u["files"]:
            if f not in W.all_files:
                W.all_files.append(f)
    out = {}
    declared = set()
    for u in UNITS:
        start = len(W.order)
        for name in u["functions"]:
            W.get_fn(name)
        mine = W.order[start:]
        # structures first used in this unit
        need = []
        for name in mine:
            fn = W.fns[name]
            for _, ty, _, _ in fn.ins:
                W.types.deps(ty[1] if isinstance(ty, tuple) else ty, need)
            for _, ty in fn.outs:
                W.types.deps(ty[1] if isinstance(ty, tuple) else ty, need)
        txt = HEADER % "".join("import SqiGen.%s\n" % i for i in u["imports"])
        for ty in need:
            if ty not in declared:
                declared.add(ty)
                txt += W.types.struct_decl(ty) + "\n\n"
        for name in mine:
            fn = W.fns[name]
            fn.module = u["module"]
            txt += "/- %s:%d  %s -/\n%s\n" % (fn.file, fn.line, name, fn.text)
        out[u["module"]] = txt
    W.scan_aliases()
    # order-faithful variants for invalid exact patterns; alias table as data
    for u in UNITS:
        extra = ""
        rows = []
        for name in W.order:
            fn = W.fns[name]
            if fn.module != u["module"]:
                continue
            for k, pat in enumerate(fn.patterns):
                rows.append('  ("%s", %s, %s)' % (name, "[" + ", ".join("(%d, %d)" % (p[0], p[1]) for p in pat["pairs"]) + "]",
                                                 "true" if pat["valid"] else "false"))
                if not pat["valid"]:
                    if any(p[2] for p in pat["pairs"]):
                        raise Unsupported("translator: %s is called with partially overlapping arguments %s at %s and the "
                                          "no-alias semantics is not valid for it (%s)" % (name, pat["pairs"], pat["sites"], pat["why"]))
                    names = [p[1] for p in fn.params]
                    # the representative of an alias class is the writable (non-const) parameter
                    unify = {}
                    for i, j, _ in pat["pairs"]:
                        if fn.params[j][3] and not fn.params[i][3]:
                            unify[names[j]] = (names[i],)
                        else:
                            unify[names[i]] = (names[j],)
                    f2 = W.load_fn(name, W.all_files)
                    r = Translator(W, f2, unify=unify)
                    res = r.run() if not any(s[0] == "for" for s in f2.body) else None
                    if res is None:
                        raise Unsupported("translator: invalid alias pattern on list function %s" % name)
                    vname = "%s_al%d" % (name, k)
                    res["text"] = res["text"].replace("def %s " % name, "def %s " % vname, 1)
                    pat["variant"] = dict(name=vname, ins=res["ins"], outs=res["outs"], uses_sqrt=res["uses_sqrt"])
                    extra += "/- order-faithful semantics of %s under the alias pattern %s used at %s -/\n%s\n" % (
                        name, pat["pairs"], ", ".join(pat["sites"][:3]), res["text"])
        out[u["module"]] += extra
        out[u["module"]] += "/-- alias patterns found at call sites: (function, [(param i ≡ param j)], no-alias def valid) -/\n"
        out[u["module"]] += "def aliasPatterns%s : List (String × List (Nat × Nat) × Bool) :=\n  [\n%s\n  ]\n" % (u["module"], ",\n".join(rows))
        out[u["module"]] += "\nend SqiGen\n"
    return W, out


def generate(repo, outdir):
    sys.path.insert(0, os.path.dirname(HERE))
    from vlib import write_if_changed
    W, out = analyze(repo)
    msgs = []
    for mod, txt in out.items():
        if write_if_changed(os.path.join(outdir, mod + ".lean"), txt):
            msgs.append("SqiGen/%s.lean regenerated" % mod)
    import _slops
    for mod, txt in _slops.ops_files(W).items():
        if write_if_changed(os.path.join(outdir, mod + ".lean"), txt):
            msgs.append("SqiGen/%s.lean regenerated" % mod)
    return msgs


if __name__ == "__main__":
    repo = sys.argv[1] if len(sys.argv) > 1 else os.environ.get("VERIF_REPO", "/repo")
    W, out = analyze(repo)
    if len(sys.argv) > 2:
        for mod, txt in out.items():
            open(os.path.join(sys.argv[2], mod + ".lean"), "w").write(txt)
    for name in W.order:
        fn = W.fns[name]
        print("%-44s ins=%s outs=%s%s" % (name, [i[0] for i in fn.ins], [o[0] for o in fn.outs], " ret=" + fn.retkind if fn.retkind else ""))
        for p in fn.patterns:
            print("     alias %s valid=%s n=%d %s %s" % (p["pairs"], p["valid"], p["nsites"], p["sites"][:2], p["why"]))

"""Translator T (C03/C02): the range validation at the top of `protocols_verif` (both variants)
-> lean/SqiGen/VerifGuard.lean.

The guard is re-extracted from the C text on every run, so the theorems of SqiProps/C03.lean
(`guard ↔ SigInRange`, `verify_safe`, `verify_rejects_out_of_range`) are about the comparisons and
constants the code contains *now*: removing the call, or weakening / dropping one bound, changes the
generated definition and breaks the proof.  On a tree without the guard (the pinned tree) the generated
guard is the constant `true` (every input reaches the body).

Accepted shape (anything else is refused loudly — TranslateError):
  static int public_key_in_range(const public_key_t *pk) { STMT* return 1; }
  static int signature_in_range(const signature_t *sig)  { STMT* return 1; }
  STMT := if (ATOM (|| ATOM)*) return 0;
        | int NAME = EXPR;
        | for (int i = 0; i < 2; i++) { for (int j = 0; j < 2; j++) { if (...) return 0; } }
  ATOM := !fp2_is_one(&V->CURVE.C) | V->CURVE.is_A24_computed_and_normalized
        | ibz_cmp(&sig->F, &ibz_const_zero) < 0 | ibz_bitsize(&sig->F) > EXPR | INTFIELD (<|<=|>|>=) EXPR
  EXPR := integer expression over literals, level constants, local ints, int fields, + - * ( ),
          (int)(sizeof(strategies) / sizeof(strategies[0]))
and in protocols_verif, before any other statement that is not a declaration:
  if (!public_key_in_range(pk) || !signature_in_range(sig)) { return 0; }
"""
import os, re, sys

sys.path.insert(0, os.path.dirname(os.path.dirname(os.path.abspath(__file__))))
from vlib import write_if_changed


class TranslateError(Exception):
    pass


VARIANTS = {
    "dim2": dict(path="src/sqisigndim2/ref/sqisigndim2x/sign.c", sigty="RawSig",
                 ints={"backtracking": "bt", "two_resp_length": "trl", "hint_aux[0]": "ha0", "hint_aux[1]": "ha1",
                       "hint_chall[0]": "hc0", "hint_chall[1]": "hc1", "chall_b": "challB"},
                 bigs={"chall_coeff": "chall", "mat_Bchall_can_to_B_chall[0][0]": "m00", "mat_Bchall_can_to_B_chall[0][1]": "m01",
                       "mat_Bchall_can_to_B_chall[1][0]": "m10", "mat_Bchall_can_to_B_chall[1][1]": "m11"}),
    "heur": dict(path="src/sqisigndim2_heuristic/ref/sqisigndim2_heuristicx/sign.c", sigty="RawSigH",
                 ints={"two_resp_length": "trl", "hint_aux[0]": "ha0", "hint_aux[1]": "ha1", "hint_b": "hintB"},
                 bigs={"x": "x", "b0": "b0", "d0": "d0", "b1": "b1", "d1": "d1", "c0_adjust": "c0", "e0_adjust": "e0"}),
}
PK_INTS = {"hint_pk[0]": "hint0", "hint_pk[1]": "hint1"}
CONSTS = {"SQIsign2D_backtracking_bound": "K.btBound", "TORSION_PLUS_EVEN_POWER": "K.f", "POWER_OF_2": "K.f",
          "SQIsign2D_response_length": "K.respLen", "SQIsign2D_response_heuristic_bound": "K.heurBound",
          "SQIsign2D_heuristic_challenge_length": "K.heurChall", "RADIX": "K.radix", "NWORDS_ORDER": "K.nwOrder",
          "NWORDS_FIELD": "K.nwField"}


def strip_comments(s):
    s = re.sub(r"/\*.*?\*/", " ", s, flags=re.S)
    return re.sub(r"//[^\n]*", " ", s)


def find_function(src, name):
    """return the body text (between the outer braces) of function `name`, or None"""
    m = re.search(r"\b%s\s*\([^)]*\)\s*\{" % re.escape(name), src)
    if not m:
        return None
    i = m.end()
    depth, j = 1, i
    while depth and j < len(src):
        depth += {"{": 1, "}": -1}.get(src[j], 0)
        j += 1
    if depth:
        raise TranslateError("unbalanced braces in %s" % name)
    return src[i:j - 1]


TOK = re.compile(r"\s*(->|\|\||&&|<=|>=|==|!=|[A-Za-z_][A-Za-z_0-9]*|\d+|.)")


def tokens(s):
    out, i = [], 0
    s = s.strip()
    while i < len(s):
        m = TOK.match(s, i)
        out.append(m.group(1))
        i = m.end()
    return out


class Parser:
    def __init__(self, toks, var, vkind, V, locals_):
        self.t, self.i, self.var, self.vkind, self.V, self.locals = toks, 0, var, vkind, V, locals_

    def peek(self, k=0):
        return self.t[self.i + k] if self.i + k < len(self.t) else None

    def eat(self, x=None):
        tok = self.peek()
        if tok is None or (x is not None and tok != x):
            raise TranslateError("guard: expected %r, got %r in %s" % (x, tok, " ".join(self.t)))
        self.i += 1
        return tok

    # ---- field access  V->a.b[c][d]  -> canonical string
    def field(self):
        self.eat(self.var); self.eat("->")
        name = self.eat()
        while self.peek() in (".", "["):
            if self.peek() == ".":
                self.eat("."); name += "." + self.eat()
            else:
                self.eat("["); name += "[" + self.eat() + "]"; self.eat("]")
        return name

    def int_field(self, name):
        table = PK_INTS if self.vkind == "pk" else self.V["ints"]
        if name not in table:
            raise TranslateError("guard: unknown int field %s->%s" % (self.var, name))
        return "%s.%s" % ("pk" if self.vkind == "pk" else "s", table[name])

    def big_field(self, name):
        if self.vkind == "pk" or name not in self.V["bigs"]:
            raise TranslateError("guard: unknown big-integer field %s->%s" % (self.var, name))
        return "s.%s" % self.V["bigs"][name]

    # ---- integer expressions -> Lean Int terms
    def expr(self):
        e = self.term()
        while self.peek() in ("+", "-"):
            op = self.eat()
            e = "(%s %s %s)" % (e, op, self.term())
        return e

    def term(self):
        e = self.factor()
        while self.peek() == "*":
            self.eat()
            e = "(%s * %s)" % (e, self.factor())
        return e

    def factor(self):
        tok = self.peek()
        if tok == "(":
            if self.peek(1) == "int" and self.peek(2) == ")":
                self.i += 3
                return self.factor()
            self.eat("(")
            if self.peek() == "sizeof":
                # sizeof(T) / sizeof(T[0])
                self.eat("sizeof"); self.eat("("); t1 = self.eat(); self.eat(")"); self.eat("/")
                self.eat("sizeof"); self.eat("("); t2 = self.eat(); self.eat("["); self.eat("0"); self.eat("]"); self.eat(")")
                self.eat(")")
                if t1 != t2 or t1 not in ("strategies", "STRATEGY4"):
                    raise TranslateError("guard: unsupported sizeof expression on %s" % t1)
                return "(K.rows2 : Int)" if t1 == "strategies" else "(K.rows4 : Int)"
            e = self.expr()
            self.eat(")")
            return e
        if tok == "-":
            self.eat()
            return "(-%s)" % self.factor()
        if tok is not None and tok.isdigit():
            self.eat()
            return "(%s : Int)" % tok
        if tok == self.var:
            return self.int_field(self.field())
        if tok in CONSTS:
            self.eat()
            return "(%s : Int)" % CONSTS[tok]
        if tok in self.locals:
            self.eat()
            return tok + "_"
        raise TranslateError("guard: unsupported token %r in integer expression (%s)" % (tok, " ".join(self.t)))

    # ---- atoms / conditions -> Lean Bool terms
    def atom(self):
        tok = self.peek()
        if tok == "!":
            self.eat("!"); self.eat("fp2_is_one"); self.eat("("); self.eat("&")
            name = self.field(); self.eat(")")
            if name not in ("curve.C", "E_aux.C"):
                raise TranslateError("guard: fp2_is_one on unexpected field %s" % name)
            return "(!%s.cIsOne)" % ("pk" if self.vkind == "pk" else "s")
        if tok == "ibz_cmp":
            self.eat(); self.eat("("); self.eat("&"); f = self.big_field(self.field()); self.eat(",")
            self.eat("&"); self.eat("ibz_const_zero"); self.eat(")"); self.eat("<"); self.eat("0")
            return "decide (%s < 0)" % f
        if tok == "ibz_bitsize":
            self.eat(); self.eat("("); self.eat("&"); f = self.big_field(self.field()); self.eat(")")
            self.eat(">")
            return "decide ((bitsize %s : Int) > %s)" % (f, self.expr())
        if tok == self.var:
            name = self.field()
            if name in ("curve.is_A24_computed_and_normalized", "E_aux.is_A24_computed_and_normalized"):
                return "%s.a24Flag" % ("pk" if self.vkind == "pk" else "s")
            lhs = self.int_field(name)
            op = self.eat()
            if op not in ("<", "<=", ">", ">="):
                raise TranslateError("guard: unsupported comparison %r" % op)
            return "decide (%s %s %s)" % (lhs, {"<": "<", "<=": "≤", ">": ">", ">=": "≥"}[op], self.expr())
        raise TranslateError("guard: unsupported condition starting at %r (%s)" % (tok, " ".join(self.t)))

    def cond(self):
        parts = [self.atom()]
        while self.peek() == "||":
            self.eat()
            parts.append(self.atom())
        if self.peek() is not None:
            raise TranslateError("guard: trailing tokens %r in condition" % self.t[self.i:])
        return "(" + " || ".join(parts) + ")"


def split_statements(body):
    """top-level statements of a function body (handles `if (...) return 0;`, `int x = ...;`, `for ... { }`)"""
    out, i, n = [], 0, len(body)
    while i < n:
        while i < n and body[i].isspace():
            i += 1
        if i >= n:
            break
        if body.startswith("for", i):
            j = body.index("{", i)
            depth, k = 1, j + 1
            while depth:
                depth += {"{": 1, "}": -1}.get(body[k], 0)
                k += 1
            out.append(body[i:k]); i = k
        else:
            j = body.index(";", i)
            out.append(body[i:j + 1]); i = j + 1
    return out


def parse_guard_fn(body, var, vkind, V):
    """-> (list of let-bindings, list of reject conditions) as Lean text"""
    lets, conds, locals_ = [], [], set()
    stmts = split_statements(body)
    if not stmts or re.sub(r"\s+", " ", stmts[-1]).strip() != "return 1;":
        raise TranslateError("guard: function must end with `return 1;`")

    def one_if(text, subst=None):
        m = re.fullmatch(r"if\s*\((.*)\)\s*return\s+0\s*;", text.strip(), flags=re.S)
        if not m:
            raise TranslateError("guard: statement not of the form `if (...) return 0;`: %s" % text.strip()[:80])
        c = m.group(1)
        for k, v in (subst or {}).items():
            c = re.sub(r"\[\s*%s\s*\]" % k, "[%d]" % v, c)
        conds.append(Parser(tokens(c), var, vkind, V, locals_).cond())

    for st in stmts[:-1]:
        s = st.strip()
        if s.startswith("if"):
            one_if(s)
        elif s.startswith("int "):
            m = re.fullmatch(r"int\s+([A-Za-z_]\w*)\s*=\s*(.*);", s, flags=re.S)
            if not m:
                raise TranslateError("guard: unsupported declaration %s" % s[:80])
            e = Parser(tokens(m.group(2)), var, vkind, V, locals_).expr()
            locals_.add(m.group(1))
            lets.append("let %s_ : Int := %s" % (m.group(1), e))
            conds.append(None)  # marker: lets must precede later conditions (kept in order below)
            conds[-1] = ("LET", lets[-1])
        elif s.startswith("for"):
            m = re.fullmatch(r"for\s*\(\s*int\s+i\s*=\s*0\s*;\s*i\s*<\s*2\s*;\s*i\+\+\s*\)\s*\{\s*for\s*\(\s*int\s+j\s*=\s*0\s*;\s*j\s*<\s*2\s*;"
                             r"\s*j\+\+\s*\)\s*\{\s*(if\s*\(.*\)\s*return\s+0\s*;)\s*\}\s*\}", s, flags=re.S)
            if not m:
                raise TranslateError("guard: unsupported loop shape %s" % s[:80])
            for i in (0, 1):
                for j in (0, 1):
                    one_if(m.group(1), {"i": i, "j": j})
        else:
            raise TranslateError("guard: unsupported statement %s" % s[:80])
    return conds


CALL_RE = re.compile(r"if\s*\(\s*!\s*public_key_in_range\s*\(\s*pk\s*\)\s*\|\|\s*!\s*signature_in_range\s*\(\s*sig\s*\)\s*\)\s*\{?\s*return\s+0\s*;\s*\}?")


def extract(repo, key):
    V = VARIANTS[key]
    src = strip_comments(open(os.path.join(repo, V["path"])).read())
    body = find_function(src, "protocols_verif")
    if body is None:
        raise TranslateError("protocols_verif not found in %s" % V["path"])
    pkf = find_function(src, "public_key_in_range")
    sgf = find_function(src, "signature_in_range")
    call = CALL_RE.search(body)
    if pkf is None and sgf is None and call is None:
        return None, "no range guard in %s (every input reaches the body)" % V["path"]
    if pkf is None or sgf is None or call is None:
        raise TranslateError("range guard of %s is incomplete (functions %s/%s, call %s)" %
                             (V["path"], pkf is not None, sgf is not None, call is not None))
    # the guard must run before anything else: only declarations (no call, no assignment from sig/pk) before it
    prefix = body[:call.start()]
    for st in [x.strip() for x in prefix.split(";") if x.strip()]:
        if "(" in st or "->" in st:
            raise TranslateError("statement before the range guard in protocols_verif of %s: %s" % (V["path"], st[:80]))
    return (parse_guard_fn(pkf, "pk", "pk", V), parse_guard_fn(sgf, "sig", "sig", V)), None


# resource releases that may precede the jump in a rejecting block (they do not change which inputs are rejected)
RELEASE = r"(?:theta_chain_finalize\s*\(\s*&\s*\w+\s*\)\s*;\s*)*"
ORDER_RE = re.compile(r"!\s*test_point_order_twof\s*\(\s*&\s*(T1m2|T1|T2)\s*\.\s*(P1|P2)\s*,\s*&\s*EchallxEaux\s*\.\s*(E1|E2)\s*,\s*([^)]*?)\s*\)")


def extract_checks(repo, key):
    """the validity checks `protocols_verif` performs on the kernel of the (2,2)-chain, as data:
    (list of (point, factor, curve, exponent) tested with test_point_order_twof in a rejecting `if`,
     small-chain / challenge kernel order tested, chain result tested)"""
    V = VARIANTS[key]
    src = strip_comments(open(os.path.join(repo, V["path"])).read())
    body = find_function(src, "protocols_verif")
    pts = []
    # rejecting ifs: `if ( ... ) { goto cleanup; }` or `{ return 0; }`
    for m in re.finditer(r"if\s*\(((?:[^(){}]|\((?:[^(){}]|\([^(){}]*\))*\))*)\)\s*\{\s*" + RELEASE + r"(?:goto\s+cleanup|return\s+0)\s*;\s*\}", body):
        cond = m.group(1)
        if "EchallxEaux" in cond:
            parts = [c.strip() for c in cond.split("||")]
            for c in parts:
                mm = ORDER_RE.fullmatch(c)
                if not mm:
                    raise TranslateError("kernel order check of %s has an unsupported disjunct: %s" % (V["path"], c[:80]))
                pts.append((mm.group(1), mm.group(2), mm.group(3), re.sub(r"\s+", "", mm.group(4))))
    kervar = "ker" if key == "dim2" else "phi_chall.kernel"
    kerlen = "sig->two_resp_length" if key == "dim2" else "phi_chall.length"
    ker = re.search(r"if\s*\(\s*!\s*test_point_order_twof\s*\(\s*&\s*%s\s*,\s*&\s*\w+\s*,\s*%s\s*\)\s*\)\s*\{\s*%sgoto\s+cleanup\s*;" %
                    (re.escape(kervar), re.escape(kerlen), RELEASE), body) is not None
    chain = (re.search(r"int\s+chain_ok\s*=\s*theta_chain_comput_strategy_faster_no_eval\s*\(", body) is not None and
             re.search(r"if\s*\(\s*!\s*chain_ok\s*\)\s*\{\s*" + RELEASE + r"goto\s+cleanup\s*;", body) is not None)
    if chain:
        # the callee must really report failure: `if (!is_split) { return 0; }` ... `return 1;`
        hd = strip_comments(open(os.path.join(repo, "src/hd/ref/hdx/theta_isogenies.c")).read())
        fb = find_function(hd, "theta_chain_comput_strategy_faster_no_eval")
        chain = fb is not None and re.search(r"if\s*\(\s*!\s*is_split\s*\)\s*\{\s*return\s+0\s*;", fb) is not None and \
            re.search(r"return\s+1\s*;\s*$", fb.strip()) is not None
    # the order checks must precede the chain call
    if pts:
        i_chk = min(m.start() for m in re.finditer(r"test_point_order_twof\s*\(\s*&\s*T(?:1m2|1|2)\s*\.", body)
                    if "EchallxEaux" in body[m.start():m.start() + 120])
        i_call = body.index("theta_chain_comput_strategy_faster_no_eval")
        if not (0 <= i_chk < i_call):
            raise TranslateError("kernel order checks of %s do not precede the chain computation" % V["path"])
    return pts, ker, chain


def extract_nist_api(repo):
    """src/sqisign.c: for each NIST-style entry point, the constant it returns when its body is a stub
    (`int ret = <const>; return ret;` and nothing else), or None when it is wired to real code"""
    src = strip_comments(open(os.path.join(repo, "src/sqisign.c")).read())
    out = []
    for fn in ("sqisign_keypair", "sqisign_sign", "sqisign_open", "sqisign_verify"):
        body = find_function(src, fn)
        if body is None:
            raise TranslateError("src/sqisign.c: %s not found" % fn)
        m = re.fullmatch(r"\s*int\s+ret\s*=\s*(-?\d+)\s*;\s*return\s+ret\s*;\s*", body)
        out.append((fn, int(m.group(1)) if m else None))
    return out


def extract_hint_thresholds(repo):
    """basis.c: `if (hint < N) x = TABLE[hint];` in the two *_from_hint point routines -> exclusive bound of the table branch"""
    src = strip_comments(open(os.path.join(repo, "src/ec/ref/ecx/basis.c")).read())
    out = {}
    for key, fn, table in (("NotAbove", "ec_curve_to_point_2f_not_above_montgomery_from_hint", "NQR_TABLE"),
                           ("Above", "ec_curve_to_point_2f_above_montgomery_from_hint", "Z_NQR_TABLE")):
        body = find_function(src, fn)
        if body is None:
            raise TranslateError("basis.c: %s not found" % fn)
        m = re.search(r"if\s*\(\s*(hint\s*>=\s*0\s*&&\s*)?hint\s*(<=|<)\s*(\d+)\s*\)\s*\{\s*\w+\s*=\s*%s\s*\[\s*hint\s*\]\s*;" % table, body)
        if not m:
            raise TranslateError("basis.c: table branch of %s has an unsupported shape" % fn)
        out[key] = int(m.group(3)) + (1 if m.group(2) == "<=" else 0)
        out[key + "Lo"] = m.group(1) is not None
    return out


def emit_fn(name, params, conds):
    lines = ["def %s %s : Bool :=" % (name, params)]
    terms = []
    for c in conds:
        if isinstance(c, tuple):
            # close the conjunction so far inside the scope of the let
            lines.append("  " + c[1])
        else:
            terms.append(c)
    # lets are emitted first (they only depend on fields/constants), then the conjunction of negated reject conditions
    lines.append("  " + (" &&\n  ".join("!" + t for t in terms) if terms else "true"))
    return "\n".join(lines)


def generate(repo, outdir):
    msgs = []
    out = ["/- GENERATED by tools/translate/verif_guard.py from the `protocols_verif` functions of /repo. Do not edit.",
           "   `dim2` / `heur` = the range validation the C code performs before touching the signature (true = accepted);",
           "   on a tree without such a validation the guard is the constant `true`. -/",
           "import SqiModel.VerifyAccess", "", "namespace SqiGen.VerifGuard", "open SqiModel.Verify", ""]
    for key, sigty in (("dim2", "RawSig"), ("heur", "RawSigH")):
        res, msg = extract(repo, key)
        if msg:
            msgs.append(msg)
        if res is None:
            out += ["def %sPresent : Bool := false" % key,
                    "def %sPk (_K : Lvl) (_pk : RawPk) : Bool := true" % key,
                    "def %sSig (_K : Lvl) (_s : %s) : Bool := true" % (key, sigty), ""]
        else:
            pkc, sgc = res
            out += ["def %sPresent : Bool := true" % key,
                    emit_fn("%sPk" % key, "(K : Lvl) (pk : RawPk)", pkc).replace("(K : Lvl)", "(_K : Lvl)") if not any("K." in str(c) for c in pkc)
                    else emit_fn("%sPk" % key, "(K : Lvl) (pk : RawPk)", pkc),
                    emit_fn("%sSig" % key, "(K : Lvl) (s : %s)" % sigty, sgc), ""]
        out += ["def %s (K : Lvl) (pk : RawPk) (s : %s) : Bool := %sPk K pk && %sSig K s" % (key, sigty, key, key), ""]
        pts, ker, chain = extract_checks(repo, key)
        out += ["/-- kernel points tested with `test_point_order_twof` (point, factor, curve, exponent) in a rejecting `if` -/",
                "def %sOrderChecks : List (String × String × String × String) := [%s]" %
                (key, ", ".join('("%s", "%s", "%s", "%s")' % p for p in pts)),
                "def %sKerCheck : Bool := %s" % (key, "true" if ker else "false"),
                "def %sChainCheck : Bool := %s" % (key, "true" if chain else "false"), ""]
        if not (pts and ker and chain):
            msgs.append("%s: validity checks of the chain kernel incomplete (points=%d, kernel=%s, chain=%s)" % (key, len(pts), ker, chain))
    api = extract_nist_api(repo)
    out += ["/-- src/sqisign.c: (entry point, is a stub, constant returned by the stub) -/",
            "def nistApi : List (String × Bool × Int) := [%s]" %
            ", ".join('("%s", %s, %d)' % (f, "true" if r is not None else "false", r if r is not None else 0) for f, r in api), ""]
    if any(r == 0 for _, r in api):
        msgs.append("src/sqisign.c: stub entry points return 0 (= success): %s" % [f for f, r in api if r == 0])
    out += ["end SqiGen.VerifGuard", ""]
    thr = extract_hint_thresholds(repo)
    consts = ["/- GENERATED by tools/translate/verif_guard.py from src/ec/ref/ecx/basis.c. Do not edit.",
              "   hints below these bounds are used as indices into NQR_TABLE / Z_NQR_TABLE by the *_from_hint routines. -/",
              "namespace SqiGen.VerifConsts",
              "def hintThrNotAbove : Nat := %d" % thr["NotAbove"], "def hintThrAbove : Nat := %d" % thr["Above"],
              "/-- the table branch is also guarded by `hint >= 0` -/",
              "def hintLoNotAbove : Bool := %s" % ("true" if thr["NotAboveLo"] else "false"),
              "def hintLoAbove : Bool := %s" % ("true" if thr["AboveLo"] else "false"),
              "end SqiGen.VerifConsts", ""]
    if write_if_changed(os.path.join(outdir, "VerifConsts.lean"), "\n".join(consts)):
        msgs.append("VerifConsts.lean regenerated")
    if write_if_changed(os.path.join(outdir, "VerifGuard.lean"), "\n".join(out)):
        msgs.append("VerifGuard.lean regenerated")
    return msgs


if __name__ == "__main__":
    import vlib
    print(generate(vlib.REPO, os.path.join(vlib.LEAN, "SqiGen")))

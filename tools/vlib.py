"""Shared machinery for the SQIsign2D-West Lean-4 verification checks.

Every check (`./check <ID> --tier quick|thorough`) builds a `Ctx`, which offers:
  * build_repo(kind)       cmake+ninja build of /repo's *working tree* (hooks on) in a temp dir
  * translate()            regenerate lean/SqiGen/*.lean from /repo (tie T)
  * lake(targets)          `lake build` under a file lock; returns (ok, log, failing decls)
  * audit(modules, thms)   forbidden-token grep + `#print axioms` on the property theorems
  * cc_harness(...)        compile a C driver against the fresh static libraries (tie H)
  * driver(lines)          run the Lean `driver` executable on a list of op lines
  * obligation(...) / violation(...) / known(...) / finish()   bookkeeping, evidence, exit code
"""
import atexit, fcntl, hashlib, json, os, re, shutil, subprocess, sys, tempfile, time

ROOT = os.path.dirname(os.path.dirname(os.path.abspath(__file__)))
REPO = os.environ.get("VERIF_REPO", "/repo")
LEAN = os.path.join(ROOT, "lean")
GUARD = "SQISIGN_SQISIGN2D_WEST_AC24_VERIF"
TMPBASE = os.environ.get("VERIF_TMP", "/var/tmp")
ALLOWED_AXIOMS = {"propext", "Classical.choice", "Quot.sound"}
FORBIDDEN = re.compile(r"\b(sorry|admit|native_decide|bv_decide|implemented_by|unsafe)\b|^\s*axiom\s|maxHeartbeats\s+0", re.M)

LEVELS = {1: dict(f=248, nwords=4, p=5 * 2**248 - 1, cof=5, resp=128),
          3: dict(f=376, nwords=6, p=65 * 2**376 - 1, cof=65, resp=194),
          5: dict(f=500, nwords=8, p=27 * 2**500 - 1, cof=27, resp=255)}


def sh(cmd, cwd=None, env=None, timeout=None, inp=None):
    e = dict(os.environ)
    if env:
        e.update(env)
    p = subprocess.run(cmd, cwd=cwd, env=e, shell=isinstance(cmd, str), input=inp,
                       stdout=subprocess.PIPE, stderr=subprocess.STDOUT, timeout=timeout)
    out = p.stdout if isinstance(p.stdout, str) else p.stdout.decode("utf-8", "replace")
    return p.returncode, out


class SplitMix64:
    """The one PRNG every random choice derives from (seeded by VERIF_SEED)."""

    def __init__(self, seed):
        self.s = seed & (2**64 - 1)

    def next(self):
        self.s = (self.s + 0x9E3779B97F4A7C15) & (2**64 - 1)
        z = self.s
        z = ((z ^ (z >> 30)) * 0xBF58476D1CE4E5B9) & (2**64 - 1)
        z = ((z ^ (z >> 27)) * 0x94D049BB133111EB) & (2**64 - 1)
        return z ^ (z >> 31)

    def below(self, n):
        if n <= 1:
            return 0
        k = (n.bit_length() + 63) // 64
        while True:
            v = 0
            for _ in range(k):
                v = (v << 64) | self.next()
            v &= (1 << n.bit_length()) - 1
            if v < n:
                return v

    def bits(self, k):
        v = 0
        for _ in range((k + 63) // 64):
            v = (v << 64) | self.next()
        return v & ((1 << k) - 1)

    def choice(self, xs):
        return xs[self.below(len(xs))]

    def fork(self, tag):
        h = hashlib.sha256((str(self.s) + ":" + tag).encode()).digest()
        return SplitMix64(int.from_bytes(h[:8], "little"))


class Ctx:
    def __init__(self, prop, tier, seed):
        self.prop, self.tier, self.seed = prop, tier, seed
        self.t0 = time.time()
        self.rng = SplitMix64(seed)
        self.tmp = tempfile.mkdtemp(prefix="sqiverif_%s_" % prop, dir=TMPBASE)
        atexit.register(lambda: shutil.rmtree(self.tmp, ignore_errors=True))
        self.builds = {}
        self.obligations = []      # (name, ok, detail)
        self.violations = []       # dict(key, what, replay, found)
        self.known_hits = []
        self.coverage = {}         # free-form extras merged into evidence.coverage
        self.samples = []
        self.evaluations = 0
        self.distinct = set()
        self.assumptions = []
        self.trusted = ["Lean 4.33.0 kernel", "axioms: propext, Classical.choice, Quot.sound (audited by #print axioms each run)"]
        self.checker_cmds = []
        self.known = [k for k in load_known() if k.get("property") == prop]
        self.log_lines = []
        self.quick = tier == "quick"

    # ------------------------------------------------------------------ logging
    def log(self, *a):
        s = " ".join(str(x) for x in a)
        self.log_lines.append(s)
        print("[%s %6.1fs] %s" % (self.prop, time.time() - self.t0, s), flush=True)

    # ------------------------------------------------------------------ repo build
    def build_repo(self, kind="ref", san=False, extra_cflags="", targets=None, hooks=True):
        """Configure+build /repo's working tree. kind: ref|broadwell. Returns build dir."""
        key = (kind, san, extra_cflags, hooks)
        if key in self.builds:
            return self.builds[key]
        b = os.path.join(self.tmp, "build_%s%s%d" % (kind, "_san" if san else "", len(self.builds)))
        cflags = ("-D%s " % GUARD if hooks else "") + extra_cflags
        cfg = ["cmake", "-G", "Ninja", "-S", REPO, "-B", b, "-DCMAKE_BUILD_TYPE=Release",
               "-DSQISIGN_BUILD_TYPE=%s" % kind, "-DENABLE_TESTS=OFF"]
        if san:
            cflags += " -fsanitize=address,undefined -fno-sanitize-recover=all -fno-omit-frame-pointer -g"
            cfg += ["-DCMAKE_C_COMPILER=clang"]
        cfg += ["-DCMAKE_C_FLAGS=%s" % cflags.strip()]
        t = time.time()
        rc, out = sh(cfg)
        if rc != 0:
            raise BuildError("cmake configure failed:\n" + out[-3000:])
        cmd = ["cmake", "--build", b, "-j", "16"]
        if targets:
            cmd += ["--target"] + list(targets)
        rc, out = sh(cmd)
        if rc != 0:
            raise BuildError("repo build failed:\n" + out[-4000:])
        self.log("built /repo (%s%s) in %.1fs" % (kind, ",san" if san else "", time.time() - t))
        self.builds[key] = b
        return b

    def libs(self, b, lvl, common="test"):
        """static libraries (link group) for level `lvl` from build dir b"""
        names = ["sqisigndim2_lvl%d" % lvl, "sqisigndim2_heuristic_lvl%d" % lvl, "sqisignhd_lvl%d" % lvl,
                 "dim2id2iso_lvl%d" % lvl, "hd_lvl%d" % lvl, "id2iso_lvl%d" % lvl, "klpt_lvl%d" % lvl,
                 "quaternion_generic", "precomp_lvl%d" % lvl, "intbig_generic", "gf_lvl%d" % lvl,
                 "ec_lvl%d" % lvl, "common_%s" % common]
        found = {}
        for d, _, fs in os.walk(b):
            for f in fs:
                if f.startswith("libsqisign_") and f.endswith(".a"):
                    found[f[len("libsqisign_"):-2]] = os.path.join(d, f)
        return [found[n] for n in names if n in found]

    def includes(self, lvl, kind="ref", variant="sqisigndim2"):
        s = os.path.join(REPO, "src")
        gf = "broadwell" if kind == "broadwell" else "ref"
        inc = [os.path.join(REPO, "include"), s + "/common/generic/include", s + "/intbig/ref/generic/include",
               s + "/precomp/ref/lvl%d/include" % lvl, s + "/quaternion/ref/generic/include",
               s + "/quaternion/ref/generic", s + "/klpt/ref/include", s + "/gf/%s/include" % gf,
               s + "/gf/%s/lvl%d/include" % (gf, lvl), s + "/ec/ref/include", s + "/id2iso/ref/include",
               s + "/hd/ref/include", s + "/hd/ref/hdx", s + "/dim2id2iso/ref/include", s + "/%s/ref/include" % variant]
        return [i for i in inc if os.path.isdir(i)]

    def cc_harness(self, src, out, lvl, kind="ref", san=False, variant="sqisigndim2", build=None,
                   extra=(), common="test", defs=()):
        b = build or self.build_repo(kind, san=san)
        cc = "clang" if san else "gcc"
        cmd = [cc, "-O1", "-g", "-std=gnu11", "-DRADIX_64", "-DTARGET_AMD64", "-DTARGET_OS_UNIX", "-DNDEBUG",
               "-D%s" % GUARD, "-DVERIF_LVL=%d" % lvl] + ["-D" + d for d in defs]
        if kind == "broadwell":
            cmd += ["-march=broadwell"]
        if san:
            cmd += ["-fsanitize=address,undefined", "-fno-sanitize-recover=all", "-fno-omit-frame-pointer"]
        cmd += ["-I" + i for i in self.includes(lvl, kind, variant)] + list(extra)
        cmd += [src, "-o", out, "-Wl,--start-group"] + self.libs(b, lvl, common) + ["-Wl,--end-group", "-lgmp", "-lm"]
        rc, o = sh(cmd)
        if rc != 0:
            raise BuildError("harness compile failed (%s):\n%s" % (src, o[-4000:]))
        return out

    # ------------------------------------------------------------------ translator + lake
    def translate(self, what=None):
        """regenerate lean/SqiGen from /repo's working tree (all generators unless `what` given)"""
        sys.path.insert(0, os.path.join(ROOT, "tools", "translate"))
        import run_all
        with LakeLock():
            msgs = []
            for w in (what or run_all.GENERATORS):
                mod = __import__(w)
                msgs += mod.generate(REPO, os.path.join(LEAN, "SqiGen")) or []
        return msgs

    def lake(self, targets, timeout=3000):
        sh([sys.executable, os.path.join(ROOT, "tools", "gen_driver.py")])
        with LakeLock():
            t = time.time()
            rc, out = sh(["lake", "build"] + list(targets), cwd=LEAN, timeout=timeout)
        self.log("lake build %s -> rc=%d in %.1fs" % (" ".join(targets), rc, time.time() - t))
        failing = []
        if rc != 0:
            for m in re.finditer(r"error: ([^\n]*?\.lean):(\d+):(\d+): ([^\n]*)", out):
                failing.append({"file": os.path.relpath(m.group(1), LEAN) if os.path.isabs(m.group(1)) else m.group(1),
                                "line": int(m.group(2)), "msg": m.group(4)[:300],
                                "decl": decl_at(m.group(1), int(m.group(2)))})
        return rc == 0, out, failing

    def audit(self, modules, theorems):
        """modules: list of Lean module names (e.g. SqiProps.C18) whose *transitive project sources* are
        grepped; theorems: fully qualified names checked with #print axioms. Returns (ok, report)."""
        bad = []
        files = project_sources(modules)
        for f in files:
            txt = strip_comments(open(f).read())
            for m in FORBIDDEN.finditer(txt):
                bad.append("%s: forbidden token %r" % (os.path.relpath(f, LEAN), m.group(0).strip()))
        axioms = {}
        if theorems:
            src = "".join("import %s\n" % m for m in modules) + "".join("#print axioms %s\n" % t for t in theorems)
            p = os.path.join(self.tmp, "axioms_%d.lean" % len(self.checker_cmds))
            open(p, "w").write(src)
            rc, out = sh(["lake", "env", "lean", p], cwd=LEAN)
            cur = None
            for blk in re.finditer(r"'([^']+)' (depends on axioms: \[([^\]]*)\]|does not depend on any axioms)", out):
                axs = [a.strip() for a in (blk.group(3) or "").replace("\n", " ").split(",") if a.strip()]
                axioms[blk.group(1)] = axs
                for a in axs:
                    if a not in ALLOWED_AXIOMS:
                        bad.append("theorem %s depends on non-standard axiom %s" % (blk.group(1), a))
            for t in theorems:
                if t not in axioms:
                    bad.append("theorem %s not found by #print axioms (%s)" % (t, out.strip()[-300:]))
        self.checker_cmds.append("lake build " + " ".join(modules) + " && #print axioms on %d theorems" % len(theorems))
        return (not bad), bad, axioms, files

    def leanchecker(self, module):
        with LakeLock():
            rc, out = sh(["lake", "env", "leanchecker", module], cwd=LEAN, timeout=1800)
        return rc == 0, out[-2000:]

    def driver(self, lines, timeout=3000):
        exe = os.path.join(LEAN, ".lake", "build", "bin", "driver")
        p = subprocess.run([exe], input=("\n".join(lines) + "\n").encode(), stdout=subprocess.PIPE,
                           stderr=subprocess.PIPE, timeout=timeout)
        if p.returncode != 0:
            raise BuildError("lean driver failed: " + p.stderr.decode()[-2000:])
        return p.stdout.decode().split("\n")[:-1] if p.stdout.endswith(b"\n") else p.stdout.decode().split("\n")

    # ------------------------------------------------------------------ bookkeeping
    def obligation(self, name, ok, detail=""):
        self.obligations.append((name, bool(ok), detail))
        if not ok:
            self.log("OBLIGATION FAILED: %s %s" % (name, detail[:500]))

    def case(self, key=None, n=1):
        self.evaluations += n
        if key is not None:
            self.distinct.add(key if isinstance(key, (str, int, tuple)) else json.dumps(key, sort_keys=True))

    def sample(self, s, cap=8):
        if len(self.samples) < cap:
            self.samples.append(s)

    def violation(self, key, what, replay, found=True):
        """Report a violation unless `key` is a listed open known finding."""
        for k in self.known:
            if k.get("status") == "open" and k.get("key") == key:
                if key not in [h["key"] for h in self.known_hits]:
                    self.known_hits.append(k)
                return False
        if key in [v["key"] for v in self.violations]:
            return True
        self.violations.append(dict(key=key, what=what, replay=replay, found=found))
        return True

    def finish(self, level="proof", rule="", explanation=""):
        os.makedirs(os.path.join(ROOT, "evidence"), exist_ok=True)
        os.makedirs(os.path.join(ROOT, "replays"), exist_ok=True)
        for k in self.known_hits:
            print("KNOWN-FINDING: property=%s %s [%s]" % (self.prop, k.get("what", ""), k.get("key")))
        nobl = len(self.obligations)
        ndis = sum(1 for o in self.obligations if o[1])
        if ndis < nobl and not self.violations:
            # an obligation that no longer checks means the property is no longer shown, even when the
            # property module did not itself produce a failing input
            bad = [o[0] for o in self.obligations if not o[1]]
            self.violations.append(dict(key="obligation:" + ";".join(bad)[:200], what="proof obligation / correspondence no longer checks",
                                        replay=dict(broken_obligations=bad, details=[o[2][:600] for o in self.obligations if not o[1]]), found=False))
        lines = []
        for i, v in enumerate(self.violations):
            rp = os.path.join(ROOT, "replays", "%s_%s_%d.json" % (self.prop, self.tier, i))
            json.dump(dict(property=self.prop, key=v["key"], what=v["what"], replay=v["replay"],
                           failing_input_found=v["found"], seed=self.seed, tier=self.tier), open(rp, "w"), indent=1, default=str)
            lines.append("VIOLATION property=%s replay=%s%s" % (self.prop, rp, "" if v["found"] else " no-failing-input-found"))
        cov = dict(obligations=max(nobl, 0), discharged=ndis,
                   checker_cmd="; ".join(self.checker_cmds) or "lake build",
                   trusted_base=self.trusted,
                   evaluations=self.evaluations, distinct_nontrivial=len(self.distinct),
                   rule=rule, samples=self.samples or ["(none)"],
                   obligation_list=[dict(name=o[0], ok=o[1], detail=o[2][:400]) for o in self.obligations],
                   known_findings_confirmed=[k.get("key") for k in self.known_hits])
        if explanation:
            cov["explanation"] = explanation
        cov.update(self.coverage)
        ev = dict(property_id=self.prop, tier=self.tier, seed=self.seed, level=level, coverage=cov,
                  assumptions=self.assumptions, wall_s=round(time.time() - self.t0, 2), violations=len(self.violations))
        json.dump(ev, open(os.path.join(ROOT, "evidence", "%s.json" % self.prop), "w"), indent=1, default=str)
        for l in lines:
            print(l, flush=True)
        ok = not self.violations
        print("[%s] %s: %d/%d obligations discharged, %d evaluations, %d known findings confirmed, %d violations, %.1fs"
              % (self.prop, "OK" if ok else "FAIL", ndis, nobl, self.evaluations, len(self.known_hits),
                 len(self.violations), time.time() - self.t0), flush=True)
        return 0 if ok else 1


class BuildError(Exception):
    pass


class LakeLock:
    def __enter__(self):
        self.f = open(os.path.join(LEAN, ".lake.verif.lock"), "w")
        fcntl.flock(self.f, fcntl.LOCK_EX)

    def __exit__(self, *a):
        fcntl.flock(self.f, fcntl.LOCK_UN)
        self.f.close()


def load_known():
    p = os.path.join(ROOT, "known_findings.json")
    if not os.path.exists(p):
        return []
    return json.load(open(p)).get("findings", [])


def write_if_changed(path, content):
    if os.path.exists(path) and open(path).read() == content:
        return False
    os.makedirs(os.path.dirname(path), exist_ok=True)
    open(path, "w").write(content)
    return True


def strip_comments(txt):
    out, i, depth, n = [], 0, 0, len(txt)
    while i < n:
        if txt.startswith("/-", i):
            depth += 1; i += 2; continue
        if depth and txt.startswith("-/", i):
            depth -= 1; i += 2; continue
        if depth:
            if txt[i] == "\n":
                out.append("\n")
            i += 1; continue
        if txt.startswith("--", i):
            while i < n and txt[i] != "\n":
                i += 1
            continue
        if txt[i] == '"':
            j = i + 1
            while j < n and txt[j] != '"':
                j += 2 if txt[j] == "\\" else 1
            out.append('""'); i = j + 1; continue
        out.append(txt[i]); i += 1
    return "".join(out)


def project_sources(modules):
    """transitive closure of project-local imports of the given modules"""
    seen, todo = {}, list(modules)
    while todo:
        m = todo.pop()
        f = os.path.join(LEAN, m.replace(".", "/") + ".lean")
        if m in seen or not os.path.exists(f):
            continue
        seen[m] = f
        for imp in re.findall(r"^\s*(?:public\s+)?import\s+([A-Za-z0-9_.]+)", open(f).read(), re.M):
            if imp.split(".")[0] in ("SqiModel", "SqiGen", "SqiProofs", "SqiProps", "SqiSpec"):
                todo.append(imp)
    return sorted(seen.values())


def decl_at(path, line):
    """name of the declaration enclosing `line` of a Lean file (best effort)"""
    try:
        ls = open(path if os.path.isabs(path) else os.path.join(LEAN, path)).read().split("\n")
    except OSError:
        return None
    for i in range(min(line, len(ls)) - 1, -1, -1):
        m = re.match(r"\s*(?:@\[[^\]]*\]\s*)?(?:private\s+|protected\s+)?(theorem|lemma|def|example|instance|abbrev)\s+([^\s:({\[]+)?", ls[i])
        if m:
            return (m.group(2) or m.group(1))
    return None


def lake_failure_violation(ctx, failing, out, searcher=None, what="proof obligation no longer checks"):
    """Common handling when `lake build` of a property's theorems fails: run the property's
    violation search (searcher() -> (key, what, replay) or None) and report."""
    names = sorted({(f.get("decl") or "?") + "@" + f["file"] for f in failing}) or ["(build error)"]
    res = searcher() if searcher else None
    if res:
        key, w, replay = res
        replay = dict(replay) if isinstance(replay, dict) else dict(input=replay)
        replay["broken_obligations"] = names
        ctx.violation(key, w, replay, found=True)
    else:
        ctx.violation("lake:" + ",".join(names), what,
                      dict(broken_obligations=names, errors=failing[:10], log_tail=out[-3000:]), found=False)


def prop_theorems(module):
    """fully-qualified names of the theorems declared in a SqiProps module (namespace-aware)"""
    f = os.path.join(LEAN, module.replace(".", "/") + ".lean")
    txt = strip_comments(open(f).read())
    ns, out = [], []
    for line in txt.split("\n"):
        m = re.match(r"\s*namespace\s+(\S+)", line)
        if m:
            ns.append(m.group(1)); continue
        m = re.match(r"\s*end\s+(\S+)", line)
        if m and ns and ns[-1] == m.group(1):
            ns.pop(); continue
        m = re.match(r"\s*(?:@\[[^\]]*\]\s*)?(?:protected\s+)?theorem\s+([^\s:({\[]+)", line)
        if m:
            out.append(".".join(ns + [m.group(1)]))
    return out


def proof_stage(ctx, modules, searcher=None, thorough_leanchecker=True, extra_targets=()):
    """translate -> lake build -> audit; registers one obligation per property theorem.
    Returns True when all proof obligations are discharged."""
    try:
        msgs = ctx.translate()
        ctx.log("translator:", msgs or "generated sources unchanged")
        ctx.obligation("translator accepts /repo sources", True)
    except Exception as e:      # the translator refusing the source is a check failure by design
        ctx.obligation("translator accepts /repo sources", False, str(e))
        res = None
        try:        # the source left the accepted subset: still look for a concrete failing input of the property
            res = searcher() if searcher else None
        except Exception as e2:
            ctx.log("violation search after translator refusal failed: %s" % e2)
        if res:
            key, w, replay = res
            replay = dict(replay) if isinstance(replay, dict) else dict(input=replay)
            replay["translator_refusal"] = str(e)
            ctx.violation(key, w, replay, found=True)
        else:
            ctx.violation("translator:" + str(e)[:160], "translator rejected the current source (construct outside the accepted subset)",
                          dict(error=str(e)), found=False)
        return False
    ok, out, failing = ctx.lake(list(modules) + list(extra_targets))
    thms = []
    for m in modules:
        thms += prop_theorems(m)
    if not ok:
        bad_decls = {f.get("decl") for f in failing}
        for t in thms:
            broken = (t.split(".")[-1] in bad_decls) or not failing
            ctx.obligation("theorem " + t, not broken,
                           "lake build failed here" if broken else "not reached by an error (build failed elsewhere)")
        thm_names = {t.split(".")[-1] for t in thms}
        for f in failing:      # a failing lemma outside the property file is an undischarged obligation too
            if f.get("decl") and f["decl"] not in thm_names:
                nm = "lemma %s (%s)" % (f["decl"], f["file"])
                if nm not in [o[0] for o in ctx.obligations]:
                    ctx.obligation(nm, False, f.get("msg", ""))
        lake_failure_violation(ctx, failing, out, searcher)
        return False
    aok, bad, axioms, files = ctx.audit(list(modules), thms)
    for t in thms:
        ctx.obligation("theorem " + t, t in axioms and all(a in ALLOWED_AXIOMS for a in axioms[t]),
                       "axioms: " + ", ".join(axioms.get(t, ["?"])))
    ctx.coverage["lean_sources_audited"] = [os.path.relpath(f, LEAN) for f in files]
    ctx.coverage["axioms_used"] = sorted({a for t in axioms.values() for a in t})
    if not aok:
        ctx.violation("audit:" + ";".join(bad)[:200], "audit of the Lean development failed",
                      dict(audit_failures=bad), found=False)
        return False
    if ctx.tier == "thorough" and thorough_leanchecker:
        for m in modules:
            lok, lout = ctx.leanchecker(m)
            ctx.obligation("leanchecker " + m, lok, lout[-300:])
            if not lok:
                ctx.violation("leanchecker:" + m, "independent re-check of compiled proofs failed",
                              dict(module=m, log=lout), found=False)
                return False
    return True


def lean_eval(ctx, src, timeout=1200):
    """run a Lean script (`lake env lean`) and return its stdout"""
    p = os.path.join(ctx.tmp, "eval_%d.lean" % int(time.time() * 1000))
    open(p, "w").write(src)
    with LakeLock():
        rc, out = sh(["lake", "env", "lean", p], cwd=LEAN, timeout=timeout)
    return rc, out


# ---------------------------------------------------------------------------- correspondence (tie H)
def run_c(cmd, lines, timeout=3000, env=None, tag="R "):
    """run a C driver on op lines; returns (rc, result_lines, stderr_tail). Only stdout lines starting
    with `tag` are results (the library prints timing noise on stdout)."""
    e = dict(os.environ)
    e.setdefault("ASAN_OPTIONS", "detect_leaks=0:abort_on_error=0")
    e.setdefault("UBSAN_OPTIONS", "print_stacktrace=1")
    if env:
        e.update(env)
    p = subprocess.run(cmd, input=("\n".join(lines) + "\n").encode(), stdout=subprocess.PIPE,
                       stderr=subprocess.PIPE, timeout=timeout, env=e)
    outs = [l[len(tag):] for l in p.stdout.decode("utf-8", "replace").split("\n") if l.startswith(tag)]
    return p.returncode, outs, p.stderr.decode("utf-8", "replace")[-4000:]


def correspond(ctx, name, lines, c_cmd, model_lines=None, max_report=5, env=None):
    """Correspondence check: the same op lines go to the C driver (real code, in-process) and to the Lean
    model driver; outputs must agree line by line. A sanitizer abort / crash of the C side is a result:
    the op being processed is reported. Returns the list of disagreements (dicts)."""
    rc, cout, cerr = run_c(c_cmd, lines, env=env)
    mout = ctx.driver(model_lines if model_lines is not None else lines)
    dis = []
    for i, l in enumerate(lines):
        c = cout[i] if i < len(cout) else "<no output: C driver stopped, rc=%d>" % rc
        m = mout[i] if i < len(mout) else "<no output>"
        if c != m:
            dis.append(dict(index=i, op=l, impl=c, model=m))
            if i >= len(cout):
                dis[-1]["stderr"] = cerr[-1500:]
                break
    ctx.evaluations += len(lines)
    ctx.obligation("correspondence " + name + " (%d ops)" % len(lines), not dis,
                   json.dumps(dis[:max_report])[:600] if dis else "")
    ctx.coverage.setdefault("correspondence", {})[name] = dict(ops=len(lines), disagreements=len(dis))
    return dis
